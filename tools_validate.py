#!/venv/bin/python
"""Validate MANIFEST.json and evidence files against the schemas."""
import json, sys, glob, os
import jsonschema
root = os.path.dirname(os.path.abspath(__file__))
ms = json.load(open("/root/.vp/MANIFEST.schema.json"))
es = json.load(open("/root/.vp/EVIDENCE.schema.json"))
m = json.load(open(os.path.join(root, "MANIFEST.json")))
jsonschema.validate(m, ms)
props = [json.loads(l)["id"] for l in open(os.path.join(root, "properties.jsonl"))]
claimed = [c["property_id"] for c in m["checks"]]
na = [n["property_id"] for n in m.get("not_applicable", [])]
assert sorted(claimed + na) == sorted(props), (sorted(claimed + na), props)
print("manifest ok:", len(claimed), "claimed,", len(na), "not applicable")
for f in sorted(glob.glob(os.path.join(root, "evidence", "*.json"))):
    e = json.load(open(f))
    jsonschema.validate(e, es)
    print("evidence ok:", os.path.basename(f), e["tier"], e["coverage"].get("evaluations"), e["coverage"].get("distinct_nontrivial"))
