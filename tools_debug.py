#!/venv/bin/python
"""Run a C02/C03 replay payload in-process (no forks) and print the terms: for triage."""
import json, os, sys
sys.path[:0] = ["/repo", os.path.dirname(os.path.abspath(__file__))]
rp = json.load(open(sys.argv[1]))
os.environ.setdefault("FUNSOR_VERIF", "1")
os.environ.setdefault("FUNSOR_VERIF_HASHSEED", str(rp["world"]["fhash"]))
import gc; gc.disable()
import funsor; funsor.set_backend("numpy")
from sim import seams, execs, oracle; seams.world_init()
from checks import c02
pl = rp["payload"]
sched, force = c02.MODES[pl["mode"]]
variant = pl.get("only") or rp["violation"].get("variant") or {}
VERBOSE = len(sys.argv) > 2
def short(x):
    r = repr(x).replace("\n", " ")
    import re
    r = re.sub(r"array\([^)]*\)", "arr", r)
    r = re.sub(r"Tensor\(\[[^{]*", "Tensor(", r)
    return r[:260]
class VCtl(execs.FaultController):
    def post_decline(self, iname, rname, cls, args, result, k):
        d = super().post_decline(iname, rname, cls, args, result, k)
        if VERBOSE:
            print("   #%d %s %s%s" % (k, iname, rname, "  [DECLINED]" if d else ""))
            print("        args:", short(args))
            print("        ->  :", short(result))
        return d
for var in ({"record": True}, variant):
    ctl = VCtl(decline_k=var.get("k"), disable_rule=var.get("rule"), record=True, check_dependence=False)
    env = {}
    res = execs.run_program(pl["program"], sched, force, ctl=ctl, env=env)
    print("=== variant", var, "K", ctl.firings)
    for k, rn in [(k, rn) for k, _, rn in ctl.fired]:
        print("   firing", k, rn)
    for name, val in env.items():
        print("  ", name, "=", repr(val)[:300].replace("\n", " "))
    for root, val in res.items():
        print("  root", root, "->", repr(val)[:400].replace("\n", " "))
        if not isinstance(val, Exception):
            p = execs.pack(val)
            print("     denote:", {k: v for k, v in p.items() if k in ("status", "why", "axes", "values", "output")})
