#!/bin/sh
# usage: soak_all.sh <first> <last> : every engine's quick tier over a seed range
for s in $(seq $1 $2); do for c in C03 C07 C14 C16 C20 C17 C02; do
  ./check $c --tier quick --seed $s --budget 2000 2>&1 | grep -E "VIOLATION|invariant:|HARNESS|^done" | cut -c1-500
done; done
