"""Worlds: one interpreter process whose every nondeterministic input is a
function of its configuration.  See DESIGN.md section 3.1."""

import hashlib
import json
import os
import random
import subprocess
import sys
import threading

VERIF_DIR = os.path.dirname(os.path.dirname(os.path.abspath(__file__)))
REPO_DIR = os.environ.get("VERIF_REPO", "/repo")
PYTHON = os.environ.get("VERIF_PYTHON", "/venv/bin/python")


def rng(*parts):
    """Splittable PRNG: a fresh ``random.Random`` for a purpose.  String seeds
    are hashed with sha512 by CPython, independent of PYTHONHASHSEED."""
    return random.Random("/".join(str(p) for p in parts))


def digest(obj):
    return hashlib.sha1(json.dumps(obj, sort_keys=True, default=repr).encode()).hexdigest()[:16]


def make_world(seed, index, **overrides):
    """World configuration number ``index`` of run seed ``seed``."""
    r = rng(seed, "world", index)
    w = {
        "index": index,
        "pyhash": r.randrange(1, 2**31),
        "fhash": r.randrange(1, 2**31),
        "tco": r.choice([0, 1]),
        "typecheck": r.choice([0, 0, 1]),
        "profile": 0,
    }
    w.update(overrides)
    return w


def world_env(world):
    env = dict(os.environ)
    for k in list(env):
        if k.startswith("FUNSOR_"):
            del env[k]
    env.update(
        {
            "PYTHONHASHSEED": str(world["pyhash"]),
            "FUNSOR_VERIF": "1",
            "FUNSOR_VERIF_HASHSEED": str(world["fhash"]),
            "FUNSOR_USE_TCO": str(world.get("tco", 0)),
            "FUNSOR_TYPECHECK": str(world.get("typecheck", 0)),
            "FUNSOR_BACKEND": "numpy",
            "OPENBLAS_NUM_THREADS": "1",
            "OMP_NUM_THREADS": "1",
            "MKL_NUM_THREADS": "1",
            "PYTHONPATH": REPO_DIR + os.pathsep + VERIF_DIR,
            "PYTHONDONTWRITEBYTECODE": "1",
            "PYTHONWARNINGS": "ignore",
        }
    )
    if world.get("profile"):
        env["FUNSOR_PROFILE"] = "1"
    return env


class Host:
    """A world-host interpreter.  Jobs are sent as JSON lines; each job is run in
    a child forked from the host's pristine post-import state."""

    def __init__(self, world):
        self.world = world
        self.proc = subprocess.Popen(
            [PYTHON, os.path.join(VERIF_DIR, "sim", "host.py")],
            stdin=subprocess.PIPE,
            stdout=subprocess.PIPE,
            stderr=subprocess.DEVNULL if not os.environ.get("VERIF_DEBUG") else None,
            env=world_env(world),
            cwd=VERIF_DIR,
        )
        self.lock = threading.Lock()
        hello = self.proc.stdout.readline()
        if not hello:
            raise RuntimeError("world host failed to start (world=%r)" % (world,))
        self.hello = json.loads(hello)

    def call(self, job):
        with self.lock:
            data = json.dumps(job).encode()
            self.proc.stdin.write(b"%d\n" % len(data) + data)
            self.proc.stdin.flush()
            line = self.proc.stdout.readline()
        if not line:
            return {"status": "hostdied"}
        return json.loads(line)

    def close(self):
        try:
            self.proc.stdin.close()
        except Exception:
            pass
        try:
            self.proc.wait(timeout=5)
        except Exception:
            self.proc.kill()


def run_jobs(jobs, procs=None, progress=None, deadline=None):
    """Run jobs (dicts with a ``world`` config, ``engine``, ``fn``, ``payload``,
    optional ``timeout``) on world hosts, ``procs`` at a time.  Returns results
    in job order.  Hosts are keyed by world configuration; a world that has
    many jobs gets several hosts."""
    import collections
    import time

    procs = procs or int(os.environ.get("VERIF_PROCS", "0")) or os.cpu_count() or 4
    by_world = collections.OrderedDict()
    for idx, job in enumerate(jobs):
        key = json.dumps(job["world"], sort_keys=True)
        by_world.setdefault(key, []).append(idx)
    results = [None] * len(jobs)
    # allocate hosts proportionally to the number of jobs of each world
    total = max(1, len(jobs))
    alloc = {}
    keys = list(by_world)
    for key in keys:
        alloc[key] = max(1, int(procs * len(by_world[key]) / total))
    lock = threading.Lock()
    queues = {key: collections.deque(idxs) for key, idxs in by_world.items()}
    sem = threading.Semaphore(procs)
    skipped = [0]

    def worker(key):
        with sem:
            with lock:
                if not queues[key]:
                    return
            try:
                host = Host(json.loads(key))
            except Exception as e:  # noqa
                with lock:
                    while queues[key]:
                        results[queues[key].popleft()] = {"status": "hostfail", "err": repr(e)}
                return
            try:
                while True:
                    with lock:
                        if not queues[key]:
                            break
                        idx = queues[key].popleft()
                    if deadline is not None and time.monotonic() > deadline:
                        results[idx] = {"status": "skipped"}
                        skipped[0] += 1
                        continue
                    job = jobs[idx]
                    res = host.call(
                        {
                            "engine": job["engine"],
                            "fn": job["fn"],
                            "payload": job["payload"],
                            "timeout": job.get("timeout", 120),
                        }
                    )
                    if res.get("status") == "hostdied":
                        results[idx] = res
                        host.close()
                        host = Host(json.loads(key))
                        continue
                    results[idx] = res
                    if progress:
                        progress(idx, res)
            finally:
                host.close()

    threads = []
    for key in keys:
        for _ in range(alloc[key]):
            t = threading.Thread(target=worker, args=(key,), daemon=True)
            threads.append(t)
    for t in threads:
        t.start()
    for t in threads:
        t.join()
    return results
