"""Seams: the places where the simulator takes control of funsor's hidden state
and nondeterminism (DESIGN.md section 3.2).  Everything here is reached from
outside the repository; the only repository hook is the seeded identity hash."""

import gc
import os
import sys

import numpy as np

import funsor
import funsor.adjoint
import funsor.affine
import funsor.approximations
import funsor.cnf
import funsor.compiler
import funsor.constant
import funsor.delta
import funsor.einsum
import funsor.factory
import funsor.gaussian
import funsor.integrate
import funsor.interpretations
import funsor.interpreter
import funsor.joint
import funsor.montecarlo
import funsor.optimizer
import funsor.recipes
import funsor.sum_product
import funsor.tensor
import funsor.terms
import funsor.testing
from funsor import interpreter
from funsor.interpretations import (
    DispatchedInterpretation,
    StatefulInterpretation,
)
from funsor.registry import PartialDefault

FUNSOR_DIR = os.path.dirname(os.path.abspath(funsor.__file__)) + os.sep

###############################################################################
# injected exception types: subclasses, so that funsor's own except clauses
# treat them exactly like the real thing, while the harness can tell them apart


class Injected:
    pass


def _mk(base):
    return type("Injected" + base.__name__, (Injected, base), {})


INJECTED_TYPES = {
    name: _mk(base)
    for name, base in [
        ("MemoryError", MemoryError),
        ("RecursionError", RecursionError),
        ("FloatingPointError", FloatingPointError),
        ("NotImplementedError", NotImplementedError),
        ("ValueError", ValueError),
        # not Exception subclasses: Ctrl-C and task cancellation also leave a block "by exception"
        ("KeyboardInterrupt", KeyboardInterrupt),
        ("CancelledError", __import__("asyncio").CancelledError),
    ]
}


def is_injected(exc):
    return isinstance(exc, Injected)


###############################################################################
# rule dispatch seam

CONTROLLER = [None]
_DISPATCH_INSTALLED = [False]
_WRAPPED_INTERPS = []


def rule_name(fn):
    """Stable name of a rule function; None for the registry default."""
    if isinstance(fn, PartialDefault):
        return None
    inner = getattr(fn, "fn", None)  # instrument wrappers
    if inner is not None and not hasattr(fn, "__code__"):
        fn = inner
    name = getattr(fn, "__qualname__", None) or getattr(fn, "__name__", None) or type(fn).__name__
    if name == "<lambda>" or name.endswith(".<lambda>"):
        code = getattr(fn, "__code__", None)
        if code is not None and code.co_filename.endswith(
            ("interpretations.py", "registry.py")
        ):
            return None
    mod = getattr(fn, "__module__", "?") or "?"
    code = getattr(fn, "__code__", None)
    line = code.co_firstlineno if code is not None else 0
    return "%s.%s:%d" % (mod, name, line)


def _make_dispatch_wrapper(iname, orig, stateful):
    def dispatch(cls, *args):
        fn = orig(cls, *args)
        ctl = CONTROLLER[0]
        if ctl is None:
            return fn
        return ctl.on_dispatch(iname, cls, args, fn, stateful)

    dispatch._verif_orig = orig
    return dispatch


def wrap_interpretation(interp):
    """Put the seam on one DispatchedInterpretation instance."""
    d = interp.__dict__.get("dispatch")
    if d is None or hasattr(d, "_verif_orig"):
        return
    interp.dispatch = _make_dispatch_wrapper(interp.__name__, d, False)
    _WRAPPED_INTERPS.append(interp)


def _iter_subclasses(cls):
    for sub in cls.__subclasses__():
        yield sub
        yield from _iter_subclasses(sub)


def install_dispatch_seam():
    if _DISPATCH_INSTALLED[0]:
        return
    _DISPATCH_INSTALLED[0] = True
    seen = []
    for obj in gc.get_objects():
        if isinstance(obj, DispatchedInterpretation):
            seen.append(obj)
    seen.sort(key=lambda i: i.__name__)
    for interp in seen:
        wrap_interpretation(interp)
    for cls in _iter_subclasses(StatefulInterpretation):
        d = cls.__dict__.get("dispatch")
        if d is None:
            continue
        fn = d.__func__ if isinstance(d, staticmethod) else d
        if hasattr(fn, "_verif_orig"):
            continue
        cls.dispatch = staticmethod(_make_dispatch_wrapper(cls.__name__, fn, True))


def dispatched_interpretations():
    return list(_WRAPPED_INTERPS)


class Controller:
    """Base controller: observes every rule dispatch.  Subclasses override
    ``decide`` to decline firings."""

    def __init__(self):
        self.firings = 0  # non-default rule returned something
        self.log = None  # optional list

    def on_dispatch(self, iname, cls, args, fn, stateful):
        rname = rule_name(fn)
        if rname is None:
            return fn
        ctl = self

        def call(*a):
            real_args = a[1:] if stateful else a
            if ctl.pre_decline(iname, rname, cls, real_args):
                return None
            result = fn(*a)
            if result is None:
                return None
            ctl.firings += 1
            if ctl.post_decline(iname, rname, cls, real_args, result, ctl.firings):
                return None
            return result

        return call

    def pre_decline(self, iname, rname, cls, args):
        return False

    def post_decline(self, iname, rname, cls, args, result, k):
        return False


class controller:
    """Context manager installing a controller."""

    def __init__(self, ctl):
        self.ctl = ctl

    def __enter__(self):
        self.prev = CONTROLLER[0]
        CONTROLLER[0] = self.ctl
        return self.ctl

    def __exit__(self, *a):
        CONTROLLER[0] = self.prev


###############################################################################
# internal call sites: sys.monitoring PY_START

MON = sys.monitoring
TOOL_CALLS = 4
TOOL_LINES = 3

EXCLUDED_NAMES = frozenset(
    [
        "__hash__",
        "__eq__",
        "__repr__",
        "__str__",
        "__del__",
        "__exit__",
        "pop_interpretation",
        "seeded_identity_hash",
        # subclass checks run or not depending on the state of lru/ABC caches,
        # which depends on the order in which multipledispatch's ambiguity scan
        # compares signatures (it sorts by address-based hash(signature)):
        # counting them would make "the n-th internal call" differ from one
        # interpreter to the next
        "__subclasscheck__",
        "__instancecheck__",
    ]
)
EXCLUDED_FILES = ("typing.py",)


class CallInjector:
    """Counts entries of funsor-internal Python frames while a window is open and
    raises a chosen exception at the n-th one."""

    def __init__(self):
        self.count = 0
        self.open = False
        self.target = None
        self.exc = None
        self.fired = None  # (n, qualname, file:line)
        self._decided = {}
        self.installed = False
        self.trace = None

    def install(self):
        if self.installed:
            return
        if MON.get_tool(TOOL_CALLS) is not None:
            MON.free_tool_id(TOOL_CALLS)
        MON.use_tool_id(TOOL_CALLS, "verif-calls")
        MON.register_callback(TOOL_CALLS, MON.events.PY_START, self._on_start)
        MON.set_events(TOOL_CALLS, MON.events.PY_START)
        self.installed = True

    def uninstall(self):
        if not self.installed:
            return
        MON.set_events(TOOL_CALLS, 0)
        MON.register_callback(TOOL_CALLS, MON.events.PY_START, None)
        MON.free_tool_id(TOOL_CALLS)
        self.installed = False

    def _on_start(self, code, offset):
        ok = self._decided.get(code)
        if ok is None:
            ok = (
                code.co_filename.startswith(FUNSOR_DIR)
                and code.co_name not in EXCLUDED_NAMES
                and not code.co_filename.endswith(EXCLUDED_FILES)
            )
            self._decided[code] = ok
        if not ok:
            return MON.DISABLE
        if not self.open:
            return None
        self.count += 1
        if self.trace is not None:
            self.trace.append(code.co_qualname)
        if self.count == self.target:
            self.fired = (
                self.count,
                code.co_qualname,
                "%s:%d" % (code.co_filename[len(FUNSOR_DIR) :], code.co_firstlineno),
            )
            exc = self.exc
            self.target = None
            raise exc("injected at internal call %d (%s)" % (self.count, code.co_qualname))
        return None

    def arm(self, n, exc_name):
        self.target = self.count + n if n is not None else None
        self.exc = INJECTED_TYPES[exc_name] if exc_name else None
        self.fired = None

    def disarm(self):
        self.target = None

    def window(self):
        return _Window(self)


class _Window:
    def __init__(self, inj):
        self.inj = inj

    def __enter__(self):
        self.inj.open = True
        return self.inj

    def __exit__(self, *a):
        self.inj.open = False


class LineInjector:
    """Runs an action (typically a garbage collection) when chosen source lines
    of chosen funsor functions are about to execute."""

    def __init__(self):
        self.installed = False
        self.codes = {}
        self.hits = {}
        self.action = None  # callable(code_name, line, occurrence) -> None
        self.open = False
        self.in_action = False

    def install(self, functions):
        if not self.installed:
            if MON.get_tool(TOOL_LINES) is not None:
                MON.free_tool_id(TOOL_LINES)
            MON.use_tool_id(TOOL_LINES, "verif-lines")
            MON.register_callback(TOOL_LINES, MON.events.LINE, self._on_line)
            self.installed = True
        for fn in functions:
            code = getattr(fn, "__code__", fn)
            self.codes[code] = code.co_qualname
            MON.set_local_events(TOOL_LINES, code, MON.events.LINE)

    def uninstall(self):
        if not self.installed:
            return
        for code in self.codes:
            MON.set_local_events(TOOL_LINES, code, 0)
        MON.register_callback(TOOL_LINES, MON.events.LINE, None)
        MON.free_tool_id(TOOL_LINES)
        self.installed = False

    def _on_line(self, code, line):
        if not self.open or self.in_action or self.action is None:
            return None
        name = self.codes.get(code)
        if name is None:
            return None
        key = (name, line)
        n = self.hits[key] = self.hits.get(key, 0) + 1
        self.in_action = True
        try:
            self.action(name, line, n)
        finally:
            self.in_action = False
        return None


###############################################################################
# interpretation stack helpers


def stack_snapshot():
    return list(interpreter._STACK)


def hard_reset_stack(base):
    """Restore the interpretation stack to a saved base (between in-process
    runs).  Returns True if anything had to be repaired."""
    dirty = interpreter._STACK != base
    interpreter._STACK[:] = base
    return dirty


###############################################################################
# random stream seam


class RandomStream:
    """Deterministic replacement for numpy.random.rand / randn.  Records every
    draw; an optional ``edit`` callback may replace values (edge draws)."""

    def __init__(self, seed):
        self.gen = np.random.Generator(np.random.PCG64(seed))
        self.calls = []  # (kind, shape)
        self.edit = None

    def rand(self, *shape):
        out = self.gen.random(shape)
        if self.edit is not None:
            out = self.edit("rand", out, len(self.calls))
        self.calls.append(("rand", tuple(shape)))
        return out

    def randn(self, *shape):
        out = self.gen.standard_normal(shape)
        if self.edit is not None:
            out = self.edit("randn", out, len(self.calls))
        self.calls.append(("randn", tuple(shape)))
        return out


class random_stream:
    def __init__(self, stream):
        self.stream = stream

    def __enter__(self):
        self.saved = (np.random.rand, np.random.randn)
        np.random.rand = self.stream.rand
        np.random.randn = self.stream.randn
        return self.stream

    def __exit__(self, *a):
        np.random.rand, np.random.randn = self.saved


###############################################################################


def set_gensym(n):
    interpreter._GENSYM_COUNTER = n


def get_gensym():
    return interpreter._GENSYM_COUNTER


def world_init():
    """Called once in the host after import."""
    install_dispatch_seam()
    np.seterr(all="ignore")
