"""Generic check driver: plans jobs, runs them on world hosts, triages
violations against the known-findings file, minimises, writes replay files and
evidence.  Engines (checks/cXX.py) provide:

  PROPERTY, LEVEL                      identifiers
  plan(seed, tier) -> list of jobs     each {"world":…, "fn":…, "payload":…}
  summarize(jobs, results, tier) -> coverage dict (EVIDENCE.schema coverage)
  minimize(job, violation, test) -> (job', violation')      optional
  fingerprint(violation) -> str                             optional

A job result (returned by the child function) is a dict with at least
  {"violations": [ {invariant, message, …}, … ], "stats": {…}}
"""

import json
import os
import sys
import time

from . import world as W

VERIF_DIR = W.VERIF_DIR
KNOWN_PATH = os.path.join(VERIF_DIR, "known_findings.json")


def load_known():
    if not os.path.exists(KNOWN_PATH):
        return []
    with open(KNOWN_PATH) as f:
        return json.load(f).get("findings", [])


def match_known(prop, violation, known):
    """A violation is a known finding iff an *open* entry for this property
    lists its fingerprint.  Fixed entries suppress nothing."""
    fp = violation.get("fingerprint")
    for k in known:
        if k.get("property") != prop or k.get("status") != "open":
            continue
        if fp is not None and fp in k.get("fingerprints", []):
            return k
    return None


def run_single(engine, job, timeout=None):
    """Run one job on a fresh host of its world; returns the child's result."""
    res = W.run_jobs([dict(job, engine=engine)], procs=1)[0]
    return res


def write_replay(prop, engine, job, violation, seed):
    rdir = os.environ.get("VERIF_REPLAY_DIR") or os.path.join(VERIF_DIR, "replays")
    os.makedirs(rdir, exist_ok=True)
    name = "%s-%s-%s.json" % (prop, seed, W.digest([job["payload"], violation.get("invariant")])[:8])
    path = os.path.join(rdir, name)
    with open(path, "w") as f:
        json.dump(
            {
                "property": prop,
                "engine": engine,
                "seed": seed,
                "world": job["world"],
                "fn": job["fn"],
                "payload": job["payload"],
                "timeout": job.get("timeout", 120),
                "violation": violation,
            },
            f,
            indent=1,
            sort_keys=True,
        )
    return path


def replay(engine_mod, path):
    with open(path) as f:
        rp = json.load(f)
    job = {
        "world": rp["world"],
        "engine": rp["engine"],
        "fn": rp["fn"],
        "payload": rp["payload"],
        "timeout": rp.get("timeout", 120),
    }
    res = W.run_jobs([job], procs=1)[0]
    want = rp["violation"]
    if res.get("status") != "ok":
        print("HARNESS replay failed: %s" % json.dumps(res)[:2000])
        return 2
    got = res["res"].get("violations", [])
    for v in got:
        if v.get("invariant") == want.get("invariant"):
            print("REPRODUCED property=%s invariant=%s" % (rp["property"], v.get("invariant")))
            print(v.get("message", ""))
            same = v.get("message") == want.get("message")
            print("message identical to recorded: %s" % same)
            print("VIOLATION property=%s replay=%s" % (rp["property"], path))
            return 1
    print("NOT REPRODUCED: expected invariant %s, got %s" % (want.get("invariant"), [v.get("invariant") for v in got]))
    return 0


def main(engine_mod, argv):
    import argparse

    ap = argparse.ArgumentParser()
    ap.add_argument("--tier", default=os.environ.get("VERIF_TIER", "quick"))
    ap.add_argument("--replay", default=None)
    ap.add_argument("--seed", type=int, default=None)
    ap.add_argument("--budget", type=float, default=None, help="wall-clock budget in seconds")
    ap.add_argument("--no-minimize", action="store_true")
    ap.add_argument("--max-report", type=int, default=5)
    args = ap.parse_args(argv)
    prop = engine_mod.PROPERTY
    engine = engine_mod.__name__.split(".")[-1]
    if args.replay:
        return replay(engine_mod, args.replay)
    tier = args.tier if args.tier in ("quick", "thorough") else "quick"
    seed = args.seed
    if seed is None:
        seed = int(os.environ.get("VERIF_SEED", "0") or 0)
    t0 = time.time()
    print("check %s tier=%s VERIF_SEED=%d" % (prop, tier, seed), flush=True)
    jobs = engine_mod.plan(seed, tier)
    for j in jobs:
        j["engine"] = engine
    budget = args.budget or getattr(engine_mod, "BUDGET", {}).get(tier)
    deadline = time.monotonic() + budget if budget else None
    done = [0]

    def progress(idx, res):
        done[0] += 1
        if done[0] % max(1, len(jobs) // 10) == 0:
            print("  .. %d/%d jobs (%.0fs)" % (done[0], len(jobs), time.time() - t0), flush=True)

    results = W.run_jobs(jobs, progress=progress, deadline=deadline)
    if hasattr(engine_mod, "post_plan"):
        # second phase (e.g. cross-world comparison needs first-phase payloads)
        more = engine_mod.post_plan(seed, tier, jobs, results)
        if more:
            for j in more:
                j["engine"] = engine
            results2 = W.run_jobs(more, progress=None, deadline=deadline)
            jobs = jobs + more
            results = results + results2
    harness_errors = []
    violations = []  # (job, violation)
    skipped = 0
    for job, res in zip(jobs, results):
        if res is None or res.get("status") == "skipped":
            skipped += 1
            continue
        if res.get("status") != "ok":
            harness_errors.append((job, res))
            continue
        for v in res["res"].get("violations", []):
            violations.append((job, v))
    if hasattr(engine_mod, "cross_check"):
        for job, v in engine_mod.cross_check(jobs, results):
            violations.append((job, v))
    known = load_known()
    new_violations = []
    known_hits = {}
    for job, v in violations:
        if "fingerprint" not in v and hasattr(engine_mod, "fingerprint"):
            v["fingerprint"] = engine_mod.fingerprint(v)
        k = match_known(prop, v, known)
        if k is not None:
            known_hits.setdefault(k["id"], [k, 0])[1] += 1
        else:
            new_violations.append((job, v))
    coverage = engine_mod.summarize(jobs, results, tier)
    wall = time.time() - t0
    coverage.setdefault("jobs", len(jobs))
    coverage["jobs_skipped_by_budget"] = skipped
    coverage["harness_errors"] = len(harness_errors)
    coverage["known_finding_hits"] = {kid: n for kid, (k, n) in known_hits.items()}
    evals = coverage.get("evaluations", 0)
    coverage["runs_per_hour"] = int(evals / max(wall, 1e-6) * 3600)
    # there are no clocks in funsor: "simulated time" is the number of simulator events
    for key in ("simulated_steps_invariant_checks", "firings_in_undisturbed_runs", "events", "steps", "rand_calls_served", "memoize_interpret_calls_checked"):
        if key in coverage:
            coverage.setdefault("simulated_time", {"unit": "simulator events (%s)" % key, "covered": coverage[key]})
            break
    coverage.setdefault("simulated_time", {"unit": "simulator events (evaluations)", "covered": evals})
    coverage["seeds_per_hour"] = round(3600.0 / max(wall, 1e-6), 1)
    coverage["worlds"] = sorted(
        {json.dumps({k: v for k, v in j["world"].items()}, sort_keys=True) for j in jobs}
    )[:40]
    evidence = {
        "property_id": prop,
        "tier": tier,
        "seed": seed,
        "level": engine_mod.LEVEL,
        "coverage": coverage,
        "assumptions": getattr(engine_mod, "ASSUMPTIONS", []),
        "wall_s": round(wall, 2),
        "violations": len(new_violations),
    }
    evdir = os.environ.get("VERIF_EVIDENCE_DIR") or os.path.join(VERIF_DIR, "evidence")
    os.makedirs(evdir, exist_ok=True)
    with open(os.path.join(evdir, prop + ".json"), "w") as f:
        json.dump(evidence, f, indent=1, sort_keys=True, default=repr)
    for kid, (k, n) in sorted(known_hits.items()):
        print("KNOWN-FINDING: property=%s %s (%s; seen %d times in this run)" % (prop, k["what"], kid, n))
    rc = 0
    if harness_errors:
        rc = 2
        for job, res in harness_errors[:5]:
            print("HARNESS-ERROR property=%s status=%s" % (prop, res.get("status")))
            print((res.get("err") or json.dumps(res))[:3000])
    if new_violations:
        rc = 1
        seen_fp = set()
        reported = 0
        for job, v in new_violations:
            fp = v.get("fingerprint") or v.get("invariant")
            if fp in seen_fp:
                continue
            seen_fp.add(fp)
            if reported >= args.max_report:
                break
            reported += 1
            mjob, mv = job, v
            if not args.no_minimize and hasattr(engine_mod, "minimize"):
                try:
                    mjob, mv = engine_mod.minimize(job, v, lambda j: _test(engine, j))
                except Exception as e:  # noqa
                    print("  (minimisation failed: %r; reporting unminimised)" % (e,))
                    mjob, mv = job, v
            path = write_replay(prop, engine, mjob, mv, seed)
            print("  invariant: %s" % mv.get("invariant"))
            print("  " + str(mv.get("message", ""))[:1500].replace("\n", "\n  "))
            print("VIOLATION property=%s replay=%s" % (prop, path), flush=True)
    print(
        "done %s: %d jobs, %d evaluations, %d violations (%d new), %d harness errors, %.1fs"
        % (prop, len(jobs), evals, len(violations), len(new_violations), len(harness_errors), wall)
    )
    return rc


def _test(engine, job):
    """Used by minimisers: run a candidate job in a fresh world host; returns
    the list of violations (empty if the run failed for harness reasons)."""
    res = W.run_jobs([dict(job, engine=engine)], procs=1)[0]
    if res is None or res.get("status") != "ok":
        return []
    return res["res"].get("violations", [])
