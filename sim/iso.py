"""Process isolation primitive: run a function in a forked child and get a JSON
result back.  Every simulated run starts from the forking process' state, so
runs never contaminate one another and a replay starts from the same state as
the original run."""

import json
import os
import select
import signal
import sys
import time
import traceback


class Timeout(Exception):
    pass


def _write_all(fd, data):
    view = memoryview(data)
    while view:
        n = os.write(fd, view)
        view = view[n:]


def fork_call(fn, args=(), timeout=60.0):
    """Run ``fn(*args)`` in a forked child.

    Returns a dict: ``{"status": "ok", "res": <json value>}``,
    ``{"status": "error", "err": <traceback string>}`` (the function raised: a
    *harness* error, never a verdict), ``{"status": "timeout"}`` or
    ``{"status": "died", "code": n}``.
    """
    r, w = os.pipe()
    sys.stdout.flush()
    sys.stderr.flush()
    pid = os.fork()
    if pid == 0:  # child
        code = 0
        try:
            os.close(r)
            # fork-safe watchdog (faulthandler's watchdog thread deadlocks when
            # re-armed in a forked grandchild): SIGALRM's default action kills us
            signal.signal(signal.SIGALRM, signal.SIG_DFL)
            signal.setitimer(signal.ITIMER_REAL, timeout + 1.0)
            try:
                res = fn(*args)
                data = json.dumps({"status": "ok", "res": res})
            except BaseException:  # noqa
                data = json.dumps({"status": "error", "err": traceback.format_exc()})
            _write_all(w, data.encode())
            os.close(w)
        except BaseException:  # noqa
            code = 3
        finally:
            os._exit(code)
    os.close(w)
    chunks = []
    deadline = time.monotonic() + timeout
    status = None
    try:
        while True:
            left = deadline - time.monotonic()
            if left <= 0:
                status = {"status": "timeout"}
                break
            ready, _, _ = select.select([r], [], [], left)
            if not ready:
                status = {"status": "timeout"}
                break
            chunk = os.read(r, 1 << 16)
            if not chunk:
                break
            chunks.append(chunk)
    finally:
        os.close(r)
    if status is not None:
        try:
            os.kill(pid, signal.SIGKILL)
        except ProcessLookupError:
            pass
        os.waitpid(pid, 0)
        return status
    _, wstatus = os.waitpid(pid, 0)
    data = b"".join(chunks)
    if not data:
        return {"status": "died", "code": wstatus}
    try:
        return json.loads(data.decode())
    except Exception:
        return {"status": "died", "code": wstatus, "partial": data[:200].decode("replace")}
