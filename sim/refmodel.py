"""A small executable reference model of the tensor fragment of the program
language (sim/program.py): every value is a dense numpy array indexed by its
named integer inputs, every operation is a few lines of numpy written from the
operation's meaning (what the funsor documentation says the term denotes),
with no rewriting, no laziness and no dispatch.  It is the oracle for rules
that are wrong on every route funsor itself offers.

Values: V(names, sizes, arr) with arr.shape == [sizes[n] for n in names] + event shape.
Operations the model does not speak about (real inputs, Gaussians, Deltas, Scatter
with an op other than add, ...) raise Unsupported; values depending on them are
skipped by the caller."""

import numpy as np


class Unsupported(Exception):
    pass


class V:
    __slots__ = ("names", "sizes", "arr")

    def __init__(self, names, sizes, arr):
        self.names = list(names)
        self.sizes = dict(sizes)
        self.arr = np.asarray(arr)
        assert tuple(self.arr.shape[: len(self.names)]) == tuple(self.sizes[n] for n in self.names), (self.names, self.sizes, self.arr.shape)

    @property
    def event(self):
        return tuple(self.arr.shape[len(self.names) :])


def _union(vals):
    names, sizes = [], {}
    for v in vals:
        for n in v.names:
            if n not in sizes:
                names.append(n)
                sizes[n] = v.sizes[n]
            elif sizes[n] != v.sizes[n]:
                raise Unsupported("input %s with two sizes" % n)
    return names, sizes


def _expand(v, names, sizes, event_ndim=None):
    """v.arr broadcast to batch axes `names` (event axes kept; optionally padded
    on the left to event_ndim axes)."""
    perm = [v.names.index(n) for n in names if n in v.names]
    nb = len(v.names)
    arr = v.arr.transpose(perm + list(range(nb, v.arr.ndim)))
    index = tuple(slice(None) if n in v.names else None for n in names)
    ev = v.event
    if event_ndim is not None and len(ev) < event_ndim:
        index = index + (None,) * (event_ndim - len(ev))
    arr = arr[index + (Ellipsis,)] if index else arr
    target = tuple(sizes[n] for n in names) + arr.shape[len(names) :]
    return np.broadcast_to(arr, target)


def _logaddexp(a, b):
    with np.errstate(all="ignore"):
        return np.logaddexp(a, b)


UNARY = {
    "neg": lambda x: -x,
    "abs": np.abs,
    "sigmoid": lambda x: 1.0 / (1.0 + np.exp(-x)),
    "tanh": np.tanh,
    "exp": np.exp,
    "sqrt": np.sqrt,
    "log": np.log,
    "log1p": np.log1p,
    "reciprocal": lambda x: 1.0 / x,
    "invert": lambda x: np.logical_not(x) if x.dtype == bool else ~x,
}
BINARY = {
    "add": np.add,
    "sub": np.subtract,
    "mul": np.multiply,
    "truediv": np.true_divide,
    "max": np.maximum,
    "min": np.minimum,
    "logaddexp": _logaddexp,
    "and_": lambda a, b: np.logical_and(a, b) if a.dtype == bool and b.dtype == bool else a & b,
    "or_": lambda a, b: np.logical_or(a, b) if a.dtype == bool and b.dtype == bool else a | b,
    "xor": lambda a, b: np.logical_xor(a, b) if a.dtype == bool and b.dtype == bool else a ^ b,
}


def _logsumexp(x, axis):
    with np.errstate(all="ignore"):
        m = np.max(x, axis=axis, keepdims=True)
        m = np.where(np.isfinite(m), m, 0.0)
        return np.log(np.sum(np.exp(x - m), axis=axis)) + np.squeeze(m, axis=axis)


REDUCE = {
    "add": np.sum,
    "mul": np.prod,
    "max": np.max,
    "min": np.min,
    "logaddexp": _logsumexp,
    "or_": np.any,
    "and_": np.all,
}
EVREDUCE = {"sum": np.sum, "prod": np.prod, "max": np.max, "min": np.min, "logsumexp": _logsumexp, "all": np.all, "any": np.any}


def _binary(fn, a, b):
    names, sizes = _union([a, b])
    nd = max(len(a.event), len(b.event))
    with np.errstate(all="ignore"):
        arr = BINARY[fn](_expand(a, names, sizes, nd), _expand(b, names, sizes, nd))
    return V(names, sizes, arr)


def _subs(a, pairs):
    """Simultaneous substitution of integer-valued values for inputs of a."""
    pairs = [(n, v) for n, v in pairs if n in a.names]
    if not pairs:
        return a
    for n, v in pairs:
        if v.event:
            raise Unsupported("non-scalar index value")
        if v.arr.dtype.kind not in "iu":
            if v.arr.dtype.kind == "b":
                raise Unsupported("boolean index")
            raise Unsupported("non-integer index value")
    subst = dict(pairs)
    kept = [n for n in a.names if n not in subst]
    keep_v = V(kept, {n: a.sizes[n] for n in kept}, np.zeros([a.sizes[n] for n in kept]))
    names, sizes = _union([keep_v] + [v for _, v in pairs])
    index = []
    for n in a.names:
        if n in subst:
            idx = _expand(subst[n], names, sizes)
            if idx.size and (idx.min() < 0 or idx.max() >= a.sizes[n]):
                raise Unsupported("index out of range")
        else:
            shape = [1] * len(names)
            shape[names.index(n)] = sizes[n]
            idx = np.arange(sizes[n]).reshape(shape)
        index.append(idx)
    arr = a.arr[tuple(index)]
    want = tuple(sizes[n] for n in names) + a.event
    arr = np.broadcast_to(arr, want) if arr.shape != want else arr
    return V(names, sizes, arr)


def _var(name, size):
    return V([name], {name: size}, np.arange(size))


def step(op, env):
    t = op["op"]
    if t == "tensor":
        dt = op["dtype"]
        shape = tuple(op["shape"])
        if dt == "float":
            arr = np.array(op["data"], dtype=np.float64).reshape(shape)
        elif dt == "bool":
            arr = np.array(op["data"], dtype=bool).reshape(shape)
        else:
            arr = np.array(op["data"], dtype=np.int64).reshape(shape)
        return V([n for n, _ in op["inputs"]], dict(map(tuple, op["inputs"])), arr)
    if t == "var":
        if op["domain"][0] != "bint":
            raise Unsupported("real variable")
        return _var(op["name"], op["domain"][1])
    if t == "num":
        return V([], {}, np.asarray(op["value"]))
    if t == "unary":
        a = env[op["a"]]
        with np.errstate(all="ignore"):
            return V(a.names, a.sizes, UNARY[op["fn"]](a.arr))
    if t == "binary" and op["fn"] == "matmul":
        a, b = env[op["a"]], env[op["b"]]
        if len(a.event) != 1 or a.event != b.event:
            raise Unsupported("matmul of non-vectors")
        names, sizes = _union([a, b])
        return V(names, sizes, np.sum(_expand(a, names, sizes) * _expand(b, names, sizes), -1))
    if t == "binary":
        if op["fn"] not in BINARY:
            raise Unsupported(op["fn"])
        return _binary(op["fn"], env[op["a"]], env[op["b"]])
    if t == "pyop":
        a = env[op["a"]]
        c = V([], {}, np.asarray(op["const"]))
        return _binary(op["fn"], c, a) if op.get("rev") else _binary(op["fn"], a, c)
    if t == "reduce":
        a = env[op["a"]]
        fn = REDUCE.get(op["fn"])
        if fn is None:
            raise Unsupported(op["fn"])
        extra = [(n, s) for n, s in op["vars"] if n not in a.names]
        names = a.names + [n for n, _ in extra]
        sizes = dict(a.sizes, **dict(extra))
        arr = _expand(a, names, sizes)
        axes = tuple(names.index(n) for n, _ in op["vars"])
        for n, s in op["vars"]:
            if sizes[n] != s:
                raise Unsupported("reduced variable of another size")
        with np.errstate(all="ignore"):
            out = arr
            for ax in sorted(axes, reverse=True):
                out = fn(out, axis=ax)
        keep = [n for n in names if n not in dict(map(tuple, op["vars"]))]
        return V(keep, sizes, out)
    if t == "subs":
        a = env[op["a"]]
        pairs = []
        for name, val in op["subs"]:
            if name not in a.names:
                continue
            if val[0] == "int":
                pairs.append((name, V([], {}, np.asarray(val[1], dtype=np.int64))))
            elif val[0] == "name":
                pairs.append((name, _var(val[1], a.sizes[name])))
            elif val[0] == "val":
                pairs.append((name, env[val[1]]))
            elif val[0] == "slice":
                _, sname, start, stop, stepv, size = val
                if size != a.sizes[name]:
                    raise Unsupported("slice of another size")
                idx = np.arange(size)[slice(start, stop, stepv)]
                pairs.append((name, V([sname], {sname: len(idx)}, idx)))
            else:
                raise Unsupported(val[0])
        return _subs(a, pairs)
    if t == "getitem":
        a = env[op["a"]]
        if not a.event:
            raise Unsupported("getitem on a scalar")
        idx = op["index"]
        key = V([], {}, np.asarray(idx[1], dtype=np.int64)) if idx[0] == "int" else env[idx[1]]
        # move the first event axis in front as a pseudo input, then substitute
        tmp = "__ev0"
        moved = V([tmp] + a.names, dict(a.sizes, **{tmp: a.event[0]}), np.moveaxis(a.arr, len(a.names), 0))
        return _subs(moved, [(tmp, key)])
    if t == "lambda":
        a = env[op["a"]]
        n, s = op["var"]
        if n not in a.names:
            names = a.names + [n]
            sizes = dict(a.sizes, **{n: s})
            a = V(names, sizes, _expand(a, names, sizes))
        pos = a.names.index(n)
        keep = [m for m in a.names if m != n]
        arr = np.moveaxis(a.arr, pos, len(a.names) - 1)  # n becomes the first event axis
        return V(keep, a.sizes, arr)
    if t == "stack":
        parts = [env[p] for p in op["parts"]]
        names, sizes = _union(parts)
        nd = max(len(p.event) for p in parts)
        arrs = [_expand(p, names, sizes, nd) for p in parts]
        arrs = np.broadcast_arrays(*arrs)
        name = op["name"]
        if name in sizes:
            raise Unsupported("stack name in use")
        return V([name] + names, dict(sizes, **{name: len(parts)}), np.stack(arrs, 0))
    if t == "cat":
        parts = [env[p] for p in op["parts"]]
        name = op["name"]
        pname = op.get("part_name") or name
        rest = [V([m for m in p.names if m != pname], p.sizes, np.zeros([p.sizes[m] for m in p.names if m != pname])) for p in parts]
        names, sizes = _union(rest)
        nd = max(len(p.event) for p in parts)
        arrs = []
        for p in parts:
            if pname not in p.names:
                raise Unsupported("cat part without the name")
            full = [pname] + names
            fs = dict(sizes, **{pname: p.sizes[pname]})
            arrs.append(_expand(p, full, fs, nd))
        ev = np.broadcast_shapes(*[x.shape[1 + len(names) :] for x in arrs])
        arrs = [np.broadcast_to(x, x.shape[: 1 + len(names)] + ev) for x in arrs]
        arr = np.concatenate(arrs, 0)
        if name in sizes:
            raise Unsupported("cat name in use")
        return V([name] + names, dict(sizes, **{name: arr.shape[0]}), arr)
    if t == "evreduce":
        a = env[op["a"]]
        fn = EVREDUCE[op["fn"]]
        nb = len(a.names)
        axis = op.get("axis")
        if not a.event:
            raise Unsupported("event reduction of a scalar")
        if axis is None:
            axes = tuple(range(nb, a.arr.ndim))
        else:
            axes = (nb + axis if axis >= 0 else a.arr.ndim + axis,)
        with np.errstate(all="ignore"):
            out = a.arr
            for ax in sorted(axes, reverse=True):
                out = fn(out, axis=ax)
        return V(a.names, a.sizes, out)
    if t == "reshape":
        a = env[op["a"]]
        return V(a.names, a.sizes, a.arr.reshape(tuple(a.arr.shape[: len(a.names)]) + tuple(op["shape"])))
    if t == "align":
        return env[op["a"]]
    if t == "opeinsum":
        parts = [env[p] for p in op["parts"]]
        names, sizes = _union(parts)
        ins, out = op["equation"].split("->")
        arrs = [_expand(p, names, sizes) for p in parts]
        eq = ",".join("..." + i for i in ins.split(",")) + "->..." + out
        return V(names, sizes, np.einsum(eq, *arrs))
    if t == "integrate":  # sum over the (integer) variables of exp(log_measure) * integrand
        lm, f = env[op["a"]], env[op["b"]]
        if lm.event:
            raise Unsupported("non-scalar log-measure")
        names, sizes = _union([lm, f])
        if any(n not in sizes for n in op["vars"]):
            raise Unsupported("integration variable that neither operand has")
        with np.errstate(all="ignore"):
            w = np.exp(_expand(lm, names, sizes).astype(np.float64))
            arr = w.reshape(w.shape + (1,) * len(f.event)) * _expand(f, names, sizes)
            for ax in sorted((names.index(n) for n in op["vars"]), reverse=True):
                arr = arr.sum(axis=ax)
        return V([n for n in names if n not in op["vars"]], sizes, arr)
    if t == "approximate":  # exact interpretations return the model itself
        env[op["b"]]
        return env[op["a"]]
    if t == "constant":
        a = env[op["a"]]
        extra = [(n, s) for n, s in op["const"] if n not in a.names]
        names = a.names + [n for n, _ in extra]
        sizes = dict(a.sizes, **dict(extra))
        return V(names, sizes, _expand(a, names, sizes))
    if t == "scatter":
        if op["fn"] != "add":
            raise Unsupported("scatter with %s" % op["fn"])
        a = env[op["a"]]
        n, size = op["var"]
        if n not in a.names or op["name"] in a.names:
            raise Unsupported("scatter layout")
        pos = a.names.index(n)
        src = np.moveaxis(a.arr, pos, 0)
        out = np.zeros((op["dest_size"],) + src.shape[1:], dtype=np.result_type(src.dtype, np.float64))
        np.add.at(out, np.array(op["index"], dtype=np.int64), src)
        names = [op["name"]] + [m for m in a.names if m != n]
        return V(names, dict(a.sizes, **{op["name"]: op["dest_size"]}), out)
    if t == "getslice":
        a = env[op["a"]]
        nb = len(a.names)
        index = (slice(None),) * nb + (slice(op["start"], op["stop"], op.get("step")),)
        return V(a.names, a.sizes, a.arr[index])
    if t in ("opcat", "opstack"):
        parts = [env[p] for p in op["parts"]]
        names, sizes = _union(parts)
        nd = max(len(p.event) for p in parts)
        if any(len(p.event) != nd for p in parts):
            raise Unsupported("parts of different event rank")
        arrs = [_expand(p, names, sizes) for p in parts]
        axis = op.get("axis", -1 if t == "opcat" else 0)
        nb = len(names)
        if t == "opcat":
            ax = nb + axis if axis >= 0 else arrs[0].ndim + axis
            return V(names, sizes, np.concatenate(arrs, ax))
        ax = nb + axis if axis >= 0 else arrs[0].ndim + 1 + axis
        return V(names, sizes, np.stack(arrs, ax))
    raise Unsupported(t)


def evaluate(prog):
    """{out: V} for every operation the model speaks about."""
    env = {}
    for op in prog:
        try:
            env[op["out"]] = step(op, env)
        except (Unsupported, KeyError):
            continue
    return env
