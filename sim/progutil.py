"""Pure-python helpers on programs (no funsor import: usable by the runner)."""


def uses(op):
    """Names of the values an operation reads."""
    out = []
    for k in ("a", "b", "point", "ld"):
        if op.get(k):
            out.append(op[k])
    out.extend(op.get("parts", ()))
    if op["op"] == "subs":
        out.extend(v[1] for _, v in op["subs"] if v[0] == "val")
    if op["op"] == "getitem" and op["index"][0] == "val":
        out.append(op["index"][1])
    return out


def prune(program, keep_out):
    """Dependency-aware slice: the operations needed for ``keep_out``."""
    need = set(keep_out)
    kept = []
    for op in reversed(program):
        if op["out"] in need:
            kept.append(op)
            need.update(uses(op))
    kept.reverse()
    return kept


def drop_op(program, idx):
    """Remove operation idx and everything that (transitively) uses it."""
    dead = {program[idx]["out"]}
    out = []
    for i, op in enumerate(program):
        if i == idx:
            continue
        if any(u in dead for u in uses(op)):
            dead.add(op["out"])
            continue
        out.append(op)
    return out


def roots(program):
    """Values that no later operation uses (the program's results)."""
    used = set()
    for op in program:
        used.update(uses(op))
    return [op["out"] for op in program if op["out"] not in used]


def describe(program):
    out = []
    for op in program:
        d = {k: v for k, v in op.items() if k not in ("data",)}
        out.append(d)
    return out
