"""Executing programs under schedules and fault controllers; denotations as
plain data so that they can cross process boundaries."""

import numpy as np

import funsor
from funsor import interpreter
from funsor.interpretations import (
    eager,
    lazy,
    memoize,
    moment_matching,
    normalize,
    reflect,
    sequential,
)

from . import oracle, program, seams

INTERPS = {
    "eager": eager,
    "lazy": lazy,
    "reflect": reflect,
    "normalize": normalize,
    "sequential": sequential,
    "moment_matching": moment_matching,
}


def has_inputs(arg):
    if isinstance(arg, funsor.terms.Funsor):
        return bool(arg.inputs)
    if isinstance(arg, (tuple, frozenset)):
        return any(has_inputs(a) for a in arg)
    return False


class FaultController(seams.Controller):
    """Counts rule firings; optionally declines firing number ``decline_k``
    (after executing it, so that everything up to that point is identical to
    the undisturbed run) and/or keeps one rule function from firing on
    operands that still have free inputs (``disable_rule``)."""

    def __init__(self, decline_k=None, disable_rule=None, record=False, check_dependence=False):
        super().__init__()
        self.decline_k = decline_k
        self.disable_rule = disable_rule
        self.record = record
        self.check_dependence = check_dependence
        self.fired = []  # (k, interpretation, rule, identity)
        self.rules = {}  # rule -> [fired, nonidentity]
        self.declined = 0
        self.disabled = 0
        self.new_dependence = []
        self.declined_rule = None
        self._depth = 0

    def pre_decline(self, iname, rname, cls, args):
        if self.disable_rule is not None and rname == self.disable_rule and any(has_inputs(a) for a in args):
            self.disabled += 1
            return True
        return False

    def post_decline(self, iname, rname, cls, args, result, k):
        if self.record:
            ident = None
            if self.check_dependence:
                ident = self._check(iname, rname, cls, args, result, k)
            st = self.rules.setdefault(rname, [0, 0])
            st[0] += 1
            if ident is False:
                st[1] += 1
            self.fired.append((k, iname, rname))
        if self.decline_k is not None and k == self.decline_k:
            self.declined += 1
            self.declined_rule = rname
            return True
        return False

    def _check(self, iname, rname, cls, args, result, k):
        """inputs(result) must be among inputs of the reflected term; returns
        whether the rewrite was the identity."""
        if not isinstance(result, funsor.terms.Funsor):
            return None
        saved_ctl = seams.CONTROLLER[0]
        saved_sym = interpreter._GENSYM_COUNTER
        seams.CONTROLLER[0] = None
        try:
            refl = reflect.interpret(cls, *args)
        except Exception:  # noqa
            return None
        finally:
            seams.CONTROLLER[0] = saved_ctl
            interpreter._GENSYM_COUNTER = saved_sym
        extra = [n for n in result.inputs if n not in refl.inputs]
        if extra:
            self.new_dependence.append(
                {"k": k, "rule": rname, "interpretation": iname, "extra_inputs": extra, "term": funsor.typing.get_origin(cls).__name__}
            )
        return result is refl


def pack(f):
    """Denotation of a funsor as JSON data, or a DECLINED/ERROR marker."""
    try:
        axes, vals = oracle.denote(f)
    except oracle.Declined as e:
        return {"status": "declined", "why": str(e)[:200]}
    except oracle.MismatchShape as e:
        return {"status": "shape", "why": str(e)[:300]}
    except Exception as e:  # noqa
        return {"status": "error", "why": "%s: %s" % (type(e).__name__, str(e)[:200])}
    vals = np.asarray(vals)
    return {
        "status": "ok",
        "axes": [[n, list(k) if not isinstance(k[1], tuple) else [k[0], list(k[1])], s] for n, k, s in axes],
        "output": repr(f.output),
        "inputs": [[n, repr(d)] for n, d in f.inputs.items()],
        "dtype": vals.dtype.kind,
        "shape": list(vals.shape),
        "values": vals.astype(np.float64).ravel().tolist() if vals.dtype.kind == "f" else vals.astype(np.int64).ravel().tolist(),
        "cls": funsor.typing.get_origin(type(f)).__name__,
    }


def unpack_values(d):
    arr = np.array(d["values"], dtype=np.float64 if d["dtype"] == "f" else np.int64)
    return arr.reshape(d["shape"])


def compare_packed(ref, got, rtol=1e-6, atol=1e-7):
    """None if equal; a message if different; raises oracle.Declined if either
    side has no verdict."""
    for d in (ref, got):
        if d["status"] == "shape":
            return d["why"]
        if d["status"] != "ok":
            raise oracle.Declined(d["status"] + ": " + d.get("why", ""))
    if ref["output"] != got["output"]:
        return "output domains differ: %s vs %s" % (ref["output"], got["output"])
    raxes = {a[0]: a for a in ref["axes"]}
    gaxes = {a[0]: a for a in got["axes"]}
    for n in raxes:
        if n in gaxes and raxes[n] != gaxes[n]:
            return "input %s has a different domain: %s vs %s" % (n, raxes[n], gaxes[n])
    # Either side may lack an input the value does not depend on (both are
    # evaluations of one expression whose inputs include both sets; a genuinely
    # new dependence is decided per firing against the reflected term).
    names = sorted(set(raxes) | set(gaxes))
    sizes = [(raxes.get(n) or gaxes[n])[2] for n in names]
    rv, gv = unpack_values(ref), unpack_values(got)

    def expand(vals, own):
        own_names = sorted(own)
        index = tuple(slice(None) if n in own else None for n in names)
        v = vals[index] if index else vals
        return np.broadcast_to(v, tuple(sizes) + tuple(vals.shape[len(own_names):]))

    try:
        rvb, gvb = expand(rv, raxes), expand(gv, gaxes)
    except ValueError:
        return "value arrays do not broadcast: %s vs %s" % (rv.shape, gv.shape)
    return oracle.compare_arrays(rvb, gvb, rtol, atol, names)


def run_program(prog, schedule, force, ctl=None, roots=None, arrays=None, env=None):
    """Execute ``prog``; op number n runs under interpretation schedule[n]
    (a name from INTERPS, or 'memoize:<base>').  Then every root is forced
    according to ``force``:
       'none'        leave as built
       'reinterpret' funsor.reinterpret under eager
       'normalize'   reinterpret under normalize, then under eager
       'sequential'  reinterpret under sequential
       'moment_matching' reinterpret under moment_matching
       'optimizer'   apply_optimizer
    Returns {root: funsor or Exception}."""
    env = {} if env is None else env
    failed = {}

    def body():
        for n, op in enumerate(prog):
            if any(u in failed for u in program.uses(op)):
                failed[op["out"]] = failed[[u for u in program.uses(op) if u in failed][0]]
                continue
            iname = schedule[n] if isinstance(schedule, (list, tuple)) else schedule
            try:
                with nested_contexts(iname):
                    env[op["out"]] = program.build(op, env, arrays)
            except Exception as e:  # noqa
                failed[op["out"]] = e
        out = {}
        for root in roots if roots is not None else program.roots(prog):
            if root in failed:
                out[root] = failed[root]
                continue
            try:
                out[root] = force_value(env[root], force)
            except Exception as e:  # noqa
                out[root] = e
        return out

    if ctl is not None:
        with seams.controller(ctl):
            return body()
    return body()


class nested_contexts:
    """'a>b>c' = with a: with b: with c (each an interpretation name or
    'memoize'); 'memoize:x' is shorthand for 'x>memoize'."""

    def __init__(self, spec):
        if spec.startswith("memoize:"):
            spec = spec.split(":")[1] + ">memoize"
        self.names = spec.split(">")
        self.stack = []

    def __enter__(self):
        try:
            for n in self.names:
                cm = memoize() if n == "memoize" else INTERPS[n]
                cm.__enter__()
                self.stack.append(cm)
        except BaseException:
            self.__exit__(None, None, None)
            raise
        return self

    def __exit__(self, *exc):
        while self.stack:
            self.stack.pop().__exit__(*exc)
        return False


def force_value(x, force):
    if force == "none":
        return x
    if force == "reinterpret":
        with eager:
            return interpreter.reinterpret(x)
    if force == "normalize":
        with normalize:
            y = interpreter.reinterpret(x)
        with eager:
            return interpreter.reinterpret(y)
    if force == "sequential":
        with sequential:
            return interpreter.reinterpret(x)
    if force == "moment_matching":
        with moment_matching:
            return interpreter.reinterpret(x)
    if force == "optimizer":
        from funsor.optimizer import apply_optimizer

        with eager:
            return apply_optimizer(x)
    raise KeyError(force)


def pack_results(results):
    out = {}
    for root, val in results.items():
        if isinstance(val, Exception):
            out[root] = {"status": "error", "why": "%s: %s" % (type(val).__name__, str(val)[:200])}
        else:
            out[root] = pack(val)
    return out
