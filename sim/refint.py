"""Reference model for marginals over real inputs.

`Reduce(logaddexp, f, {real vars})` denotes  log of the integral of exp(f) over
those variables.  Whenever f, at a fixed assignment of its other inputs, is a
quadratic function of the marginalised block (a Gaussian, sums of Gaussians,
Gaussians after affine substitution, plus terms that do not depend on the
block), the integral has a closed form in the coefficients of that quadratic.
The coefficients are recovered here from *point evaluations* of f (ground
substitution only, never funsor's marginalisation code), so the result is an
oracle that is independent of Gaussian.eager_reduce and of every rewrite that
leads to it.  Where f is not quadratic in the block (mixtures, Deltas), or the
quadratic is not integrable, the model does not speak (returns None)."""

import itertools
import math

import numpy as np

from funsor.tensor import Tensor

from . import oracle


def _block(names, inputs):
    out = []
    for n in names:
        shape = tuple(inputs[n].shape)
        out.append((n, shape, int(np.prod(shape)) if shape else 1))
    return out


def _as_point(block, x):
    pt = {}
    off = 0
    for n, shape, k in block:
        pt[n] = Tensor(np.array(x[off : off + k], dtype=np.float64).reshape(shape))
        off += k
    return pt


def marginal_at(f, names, point):
    """log integral of exp(f(point, x)) dx over the real inputs `names`, from a
    quadratic fit through point evaluations; None where the model does not speak."""
    block = _block(names, f.inputs)
    d = sum(k for _, _, k in block)

    def h(x):
        v = oracle._ground_value(f, dict(point, **_as_point(block, x)))
        v = np.asarray(v, dtype=np.float64)
        if v.shape != ():
            raise oracle.Declined("non-scalar output")
        return float(v)

    zero = np.zeros(d)
    c = h(zero)
    if not math.isfinite(c):
        return None
    eye = np.eye(d)
    lam = np.zeros((d, d))
    eta = np.zeros(d)
    hp = []
    for i in range(d):
        a, b = h(eye[i]), h(-eye[i])
        if not (math.isfinite(a) and math.isfinite(b)):
            return None
        hp.append(a)
        lam[i, i] = -(a + b - 2 * c)
        eta[i] = (a - b) / 2
    for i, j in itertools.combinations(range(d), 2):
        v = h(eye[i] + eye[j])
        if not math.isfinite(v):
            return None
        # v = c + eta_i + eta_j - (lam_ii + lam_jj + 2 lam_ij) / 2
        lam[i, j] = lam[j, i] = -(v - c - eta[i] - eta[j]) - (lam[i, i] + lam[j, j]) / 2

    def q(x):
        return c + eta @ x - 0.5 * x @ lam @ x

    # is f really quadratic in the block?  two off-lattice check points
    for chk in (np.array([0.7 - 0.45 * i for i in range(d)]), np.array([-1.3 + 0.6 * i for i in range(d)])):
        got = h(chk)
        want = q(chk)
        if not math.isfinite(got) or abs(got - want) > 1e-7 * (1 + abs(got) + abs(want)):
            return None
    w = np.linalg.eigvalsh(lam)
    if w.min() <= 1e-6 * max(1.0, w.max()):
        return None  # not integrable over the block
    sol = np.linalg.solve(lam, eta)
    return c + 0.5 * eta @ sol + 0.5 * d * math.log(2 * math.pi) - 0.5 * np.linalg.slogdet(lam)[1]


def _fit_quadratic(h, d):
    """(c, eta, lam) with h(x) = c + eta.x - x.lam.x/2 if h is quadratic (checked at two
    off-lattice points), else None."""
    zero = np.zeros(d)
    c = h(zero)
    if not math.isfinite(c):
        return None
    eye = np.eye(d)
    lam = np.zeros((d, d))
    eta = np.zeros(d)
    for i in range(d):
        a, b = h(eye[i]), h(-eye[i])
        if not (math.isfinite(a) and math.isfinite(b)):
            return None
        lam[i, i] = -(a + b - 2 * c)
        eta[i] = (a - b) / 2
    for i, j in itertools.combinations(range(d), 2):
        v = h(eye[i] + eye[j])
        if not math.isfinite(v):
            return None
        lam[i, j] = lam[j, i] = -(v - c - eta[i] - eta[j]) - (lam[i, i] + lam[j, j]) / 2
    for chk in (np.array([0.7 - 0.45 * i for i in range(d)]), np.array([-1.3 + 0.6 * i for i in range(d)])):
        got = h(chk)
        want = c + eta @ chk - 0.5 * chk @ lam @ chk
        if not math.isfinite(got) or abs(got - want) > 1e-7 * (1 + abs(got) + abs(want)):
            return None
    return c, eta, lam


def integral_at(lm, integrand, names, point):
    """integral of exp(lm) * integrand over the real inputs `names` at `point`, when
    lm is an integrable quadratic in the block and the integrand a polynomial of
    degree <= 2 in it (both established from point evaluations); else None.
    The integrand may be vector-valued: the result has its shape."""
    inputs = dict(lm.inputs)
    inputs.update(integrand.inputs)
    block = [(n, tuple(inputs[n].shape), int(np.prod(inputs[n].shape)) if inputs[n].shape else 1) for n in names]
    d = sum(k for _, _, k in block)

    def ev(f, x):
        pt = dict(point, **_as_point(block, x))
        return np.asarray(oracle._ground_value(f, {k: v for k, v in pt.items() if k in f.inputs}), dtype=np.float64)

    def h(x):
        v = ev(lm, x)
        if v.shape != ():
            raise oracle.Declined("non-scalar log-measure")
        return float(v)

    fit = _fit_quadratic(h, d)
    if fit is None:
        return None
    c, eta, lam = fit
    w = np.linalg.eigvalsh(lam)
    if w.min() <= 1e-6 * max(1.0, w.max()):
        return None
    cov = np.linalg.inv(lam)
    mu = cov @ eta
    logz = c + 0.5 * eta @ mu + 0.5 * d * math.log(2 * math.pi) - 0.5 * np.linalg.slogdet(lam)[1]
    shape = tuple(integrand.output.shape)
    out = np.zeros(shape)
    for idx in itertools.product(*[range(s) for s in shape]) if shape else [()]:
        fit = _fit_quadratic(lambda x: float(ev(integrand, x)[idx]), d)
        if fit is None:
            return None
        c2, b2, a2 = fit
        # E[c2 + b2.x - x.a2.x/2] under N(mu, cov)
        out[idx] = c2 + b2 @ mu - 0.5 * (mu @ a2 @ mu + np.trace(a2 @ cov))
    return math.exp(logz) * out if logz < 600 else None


def check_integral(lm, integrand, out, names, stats, max_points=5):
    """Compare `out` (funsor's Integrate(lm, integrand, names)) with integral_at."""
    inputs = dict(lm.inputs)
    inputs.update(integrand.inputs)
    if any(n not in inputs for n in names):
        return None
    # integer variables reduced together with the real ones: a plain sum over their values
    int_names = [n for n in names if inputs[n].dtype != "real"]
    all_names = names
    names = [n for n in names if inputs[n].dtype == "real"]
    if not names:
        return None
    if tuple(lm.output.shape) != ():
        return None
    int_axes = [(n, ("int", inputs[n].size), inputs[n].size) for n in int_names]
    if int(np.prod([a[2] for a in int_axes])) > 24:
        return None
    axes = sorted(oracle.input_axes({k: v for k, v in inputs.items() if k not in all_names}))
    sizes = [a[2] for a in axes]
    pts = list(itertools.product(*[range(s) for s in sizes]))
    if len(pts) > max_points:
        step = len(pts) / float(max_points)
        pts = [pts[int(i * step)] for i in range(max_points)]
    for idx in pts:
        point = {a[0]: oracle._point_value(a[1], i, a[0]) for a, i in zip(axes, idx)}
        try:
            want = 0.0
            for iv in itertools.product(*[range(a[2]) for a in int_axes]):
                ipoint = dict(point, **{a[0]: oracle._point_value(a[1], i, a[0]) for a, i in zip(int_axes, iv)})
                part = integral_at(lm, integrand, names, ipoint)
                if part is None:
                    want = None
                    break
                want = want + part
        except oracle.Declined:
            want = None
        except Exception:  # noqa
            stats["reference_errors"] = stats.get("reference_errors", 0) + 1
            want = None
        if want is None:
            stats["reference_silent"] = stats.get("reference_silent", 0) + 1
            continue
        try:
            got = np.asarray(oracle._ground_value(out, {k: v for k, v in point.items() if k in out.inputs}), dtype=np.float64)
        except oracle.Declined:
            continue
        except Exception:  # noqa
            stats["reference_errors"] = stats.get("reference_errors", 0) + 1
            continue
        stats["reference_points"] = stats.get("reference_points", 0) + 1
        try:
            got = np.broadcast_to(got, np.shape(want))
        except ValueError:
            return "integral over %s: funsor's value has shape %s, the integrand has shape %s" % (sorted(names), got.shape, np.shape(want))
        scale = 1 + np.abs(got).max() + np.abs(want).max()
        if not np.all(np.isfinite(got)) or np.abs(got - want).max() > 1e-6 * scale:
            return "integral over %s at %s: funsor gives %s, the Gaussian moments of the fitted quadratics give %s" % (
                sorted(names),
                {k: (np.asarray(v.data).tolist()) for k, v in point.items()},
                np.asarray(got).tolist(),
                np.asarray(want).tolist(),
            )
    return None


def check_marginal(f, out, names, stats, max_points=6):
    """Compare `out` (funsor's value for Reduce(logaddexp, f, names)) with the
    reference at up to max_points assignments of the remaining inputs.
    Returns a message on disagreement."""
    if any(n not in f.inputs or f.inputs[n].dtype != "real" for n in names):
        return None
    if tuple(f.output.shape) != () or tuple(out.output.shape) != ():
        return None
    axes = sorted(oracle.input_axes({k: v for k, v in f.inputs.items() if k not in names}))
    sizes = [a[2] for a in axes]
    pts = list(itertools.product(*[range(s) for s in sizes]))
    if len(pts) > max_points:
        step = len(pts) / float(max_points)
        pts = [pts[int(i * step)] for i in range(max_points)]
    for idx in pts:
        point = {a[0]: oracle._point_value(a[1], i, a[0]) for a, i in zip(axes, idx)}
        try:
            want = marginal_at(f, names, point)
        except oracle.Declined:
            want = None
        except Exception:  # noqa  (funsor raised while evaluating f at a point)
            stats["reference_errors"] = stats.get("reference_errors", 0) + 1
            want = None
        if want is None:
            stats["reference_silent"] = stats.get("reference_silent", 0) + 1
            continue
        opoint = {k: v for k, v in point.items() if k in out.inputs}
        try:
            got = float(np.asarray(oracle._ground_value(out, opoint), dtype=np.float64))
        except oracle.Declined:
            continue
        except Exception:  # noqa
            stats["reference_errors"] = stats.get("reference_errors", 0) + 1
            continue
        stats["reference_points"] = stats.get("reference_points", 0) + 1
        if not math.isfinite(got) or abs(got - want) > 1e-6 * (1 + abs(got) + abs(want)):
            return "marginal over %s at %s: funsor gives %.12g, the closed form of the quadratic fitted through point evaluations gives %.12g" % (
                sorted(names),
                {k: (np.asarray(v.data).tolist()) for k, v in point.items()},
                got,
                want,
            )
    return None
