"""Programs: JSON-serialisable SSA lists of public-API funsor operations.  A
program is the unit that is generated, logged, shrunk and replayed
(DESIGN.md section 3.4 / 4).

Generation uses funsor itself (under `reflect`) only as a type checker, so the
generator needs no model of funsor's typing rules; the generated program is
plain data and carries its own array contents."""

from collections import OrderedDict

import itertools

import numpy as np

import funsor
from funsor import ops
from funsor.domains import Array, Bint, Real, Reals
from funsor.interpretations import reflect
from funsor.tensor import Tensor
from funsor.terms import Binary, Cat, Funsor, Lambda, Number, Stack, Unary, Variable

from .progutil import describe, drop_op, prune, roots, uses  # noqa: F401

NAMES = ["i", "j", "k", "l"]

# op families: each is a carrier on which every (reduce-op, binary-op) pair the
# rewrite rules may combine is a genuine semiring (C02's side condition)
FAMILIES = {
    "ring": {
        "data": "real",
        "unary": ["neg", "abs", "sigmoid", "tanh", "exp"],
        "binary": ["add", "sub", "mul"],
        "reduce": ["add", "mul"],
    },
    "tropical": {  # non-negative data: max/min distribute over mul and add
        "data": "pos",
        "unary": ["sqrt", "abs", "exp", "sigmoid", "reciprocal"],
        "binary": ["add", "mul", "max", "min", "truediv"],
        "reduce": ["max", "min", "add", "mul"],
    },
    "log": {
        "data": "real",
        "unary": ["neg", "abs", "tanh"],
        "binary": ["add", "sub", "logaddexp", "max", "min"],
        "reduce": ["logaddexp", "add", "max", "min"],
    },
    "bool": {
        "data": "bool",
        "unary": ["invert"],
        "binary": ["and_", "or_", "xor"],
        "reduce": ["or_", "and_"],
    },
}


def get_op(name):
    return getattr(ops, name)


def domain_of(spec):
    """spec: ["bint", n] | ["real"] | ["reals", [shape]]"""
    if spec[0] == "bint":
        return Bint[spec[1]]
    if spec[0] == "real":
        return Real
    return Reals[tuple(spec[1])]


###############################################################################
# execution


def make_array(op):
    dt = op["dtype"]
    shape = tuple(op["shape"])
    if dt == "float":
        arr = np.array(op["data"], dtype=np.float64).reshape(shape)
    elif dt == "bool":
        arr = np.array(op["data"], dtype=bool).reshape(shape)
    else:
        arr = np.array(op["data"], dtype=np.int64).reshape(shape)
    return arr


def build(op, env, arrays=None):
    """Execute one program operation under the *current* interpretation.
    ``env`` maps value names to funsors; ``arrays`` (optional dict) receives the
    leaf arrays so that the immutability engine can watch them."""
    t = op["op"]
    if t == "tensor":
        arr = make_array(op)
        if arrays is not None:
            arrays[op["out"]] = arr
        inputs = OrderedDict((n, Bint[s]) for n, s in op["inputs"])
        dtype = op["dtype"]
        if dtype == "float":
            return Tensor(arr, inputs, "real")
        if dtype == "bool":
            return Tensor(arr, inputs, 2)
        return Tensor(arr, inputs, int(dtype.split(":")[1]))
    if t == "var":
        return Variable(op["name"], domain_of(op["domain"]))
    if t == "num":
        return Number(op["value"]) if op.get("dtype") is None else Number(op["value"], op["dtype"])
    if t == "unary":
        return Unary(get_op(op["fn"]), env[op["a"]])
    if t == "binary":
        return Binary(get_op(op["fn"]), env[op["a"]], env[op["b"]])
    if t == "pyop":  # python operator sugar with a python scalar
        a = env[op["a"]]
        c = op["const"]
        fn = op["fn"]
        if op.get("rev"):
            return {"add": lambda: c + a, "sub": lambda: c - a, "mul": lambda: c * a}[fn]()
        return {"add": lambda: a + c, "sub": lambda: a - c, "mul": lambda: a * c}[fn]()
    if t == "reduce":
        a = env[op["a"]]
        rvars = frozenset(Variable(n, Bint[s]) for n, s in op["vars"])
        return a.reduce(get_op(op["fn"]), rvars)
    if t == "subs":
        a = env[op["a"]]
        subs = {}
        for name, val in op["subs"]:
            if val[0] == "int":
                subs[name] = val[1]
            elif val[0] == "name":
                subs[name] = val[1]
            elif val[0] == "val":
                subs[name] = env[val[1]]
            elif val[0] == "slice":
                subs[name] = funsor.terms.Slice(val[1], val[2], val[3], val[4], val[5])
            else:
                raise KeyError(val[0])
        return a(**subs)
    if t == "getitem":
        a = env[op["a"]]
        idx = op["index"]
        key = idx[1] if idx[0] == "int" else env[idx[1]]
        return a[key]
    if t == "lambda":
        a = env[op["a"]]
        n, s = op["var"]
        return Lambda(Variable(n, Bint[s]), a)
    if t == "stack":
        return Stack(op["name"], tuple(env[p] for p in op["parts"]))
    if t == "cat":
        return Cat(op["name"], tuple(env[p] for p in op["parts"]), op.get("part_name") or op["name"])
    if t == "gaussian":
        from funsor.gaussian import Gaussian

        bshape = tuple(sz for _, sz in op["batch"])
        dim = sum(int(np.prod(sh)) if sh else 1 for _, sh in op["reals"])
        if op.get("rank") is not None:
            # a square-root factor of the given rank (dim x rank), used as it is:
            # rank < dim is a "conditional style" Gaussian, improper in dim - rank directions
            rank = op["rank"]
            L = np.array(op["mats"], dtype=np.float64).reshape(bshape + (dim, rank))
            white = np.array(op["locs"], dtype=np.float64).reshape(bshape + (rank,))
        else:
            A = np.array(op["mats"], dtype=np.float64).reshape(bshape + (dim, dim))
            P = A @ np.swapaxes(A, -1, -2) + 0.5 * np.eye(dim)
            L = np.linalg.cholesky(P)
            if op.get("extra"):
                # over-complete factor: extra columns (precision P + E E^T stays well conditioned)
                E = np.array(op["extra"], dtype=np.float64).reshape(dim, -1)
                L = np.concatenate([L, np.broadcast_to(E, bshape + E.shape)], -1)
            loc = np.array(op["locs"], dtype=np.float64).reshape(bshape + (dim,))
            white = (np.swapaxes(L, -1, -2) @ loc[..., None])[..., 0]
        if arrays is not None:
            arrays[op["out"] + ".white_vec"] = white
            arrays[op["out"] + ".prec_sqrt"] = L
        inputs = OrderedDict((n, Bint[sz]) for n, sz in op["batch"])
        for n, sh in op["reals"]:
            inputs[n] = Reals[tuple(sh)]
        return Gaussian(white_vec=white, prec_sqrt=L, inputs=inputs)
    if t == "delta":
        from funsor.delta import Delta

        return Delta(op["name"], env[op["point"]], env[op["ld"]] if op.get("ld") else Number(0.0))
    if t == "affine":  # c * Variable(name) + d  (elementwise), a lazy affine expression of a real variable
        v = Variable(op["name"], domain_of(op["domain"]))
        return v * op["scale"] + op["shift"]
    if t == "integrate":
        from funsor.integrate import Integrate

        lm, integrand = env[op["a"]], env[op["b"]]
        rvars = frozenset(Variable(n, lm.inputs[n] if n in lm.inputs else integrand.inputs[n]) for n in op["vars"])
        return Integrate(lm, integrand, rvars)
    if t == "reduce_real":  # marginalise real inputs
        a = env[op["a"]]
        rvars = frozenset(Variable(n, a.inputs[n]) for n in op["vars"])
        return a.reduce(get_op(op["fn"]), rvars)
    if t == "constant":
        from funsor.constant import Constant

        return Constant(OrderedDict((n, Bint[sz]) for n, sz in op["const"]), env[op["a"]])
    if t == "scatter":
        from funsor.terms import Scatter

        src = env[op["a"]]
        n, size = op["var"]
        idx = Tensor(np.array(op["index"], dtype=np.int64), OrderedDict([(n, Bint[size])]), op["dest_size"])
        return Scatter(get_op(op["fn"]), ((op["name"], idx),), src, frozenset([Variable(n, Bint[size])]))
    if t == "independent":
        from funsor.terms import Independent

        return Independent(env[op["a"]], op["reals_var"], op["bint_var"], op["diag_var"])
    if t == "getslice":
        return env[op["a"]][op["start"] : op["stop"] : op.get("step")]
    if t == "opcat":
        return ops.cat(tuple(env[p] for p in op["parts"]), op.get("axis", -1))
    if t == "opstack":
        return ops.stack(tuple(env[p] for p in op["parts"]), op.get("axis", 0))
    if t == "evreduce":  # reduction over event (output) dims
        a = env[op["a"]]
        return getattr(a, op["fn"])(op.get("axis"))
    if t == "opeinsum":  # numpy-style einsum over the event (output) dims of the operands
        from funsor.tensor import Einsum

        return Einsum(op["equation"], *[env[p] for p in op["parts"]])
    if t == "approximate":  # exact under every exact interpretation
        return env[op["a"]].approximate(get_op(op["fn"]), env[op["b"]], frozenset(op["vars"]))
    if t == "reshape":
        return env[op["a"]].reshape(tuple(op["shape"]))
    if t == "align":
        return env[op["a"]].align(tuple(op["names"]))
    raise KeyError(t)


###############################################################################
# generation


class Gen:
    def __init__(self, r, family=None, sizes=None, max_event=1, allow=None, real_vars=True):
        self.r = r
        self.family_name = family or r.choice(["ring", "ring", "tropical", "log", "bool"])
        self.fam = FAMILIES[self.family_name]
        self.sizes = sizes or {n: r.choice([1, 2, 2, 3, 3, 4, 4, 6]) for n in NAMES}
        self.program = []
        self.types = {}  # name -> lazy funsor (type carrier)
        self.counter = 0
        self.max_event = max_event
        self.real_vars = real_vars and self.family_name != "bool"
        self.allow = allow
        self.fresh_names = 0
        # names of values stored as bounded *integers* (index tensors, Bint
        # variables and what is derived from them).  Typing discipline of the
        # workload: only these are used as indices, and they are never fed to
        # and/or/xor/invert, whose carrier is numpy booleans (C02's side condition).
        self.intvals = set()

    # -- helpers ------------------------------------------------------------
    def new_name(self):
        self.counter += 1
        return "v%d" % self.counter

    def emit(self, op):
        """Type-check by building under reflect; returns True if accepted."""
        op = dict(op)
        op["out"] = self.new_name()
        try:
            with reflect:
                val = build(op, self.types)
            if not isinstance(val, Funsor):
                return None
            if not self.consistent(op):
                return None  # one input name with two different domains: ill-typed
            # keep terms small enough to ground exhaustively
            n = 1
            for d in val.inputs.values():
                if d.dtype == "real":
                    n *= 2
                else:
                    n *= d.size
            if n > 256 or len(val.output.shape) > 2 or val.output.num_elements > 16:
                return None
        except Exception:  # noqa
            return None
        self.types[op["out"]] = val
        self.program.append(op)
        if val.output.dtype != "real":
            src = op.get("a")
            if (op["op"] == "tensor" and str(op["dtype"]).startswith("int")) or op["op"] == "var" or (src in self.intvals):
                self.intvals.add(op["out"])
        return op["out"]

    def consistent(self, op):
        """Well-typedness funsor itself does not check: an input name must carry
        one domain throughout the operands an operation combines."""
        t = op["op"]
        maps = []
        if t in ("binary", "approximate", "integrate"):
            maps = [dict(self.types[op["a"]].inputs), dict(self.types[op["b"]].inputs)]
        elif t == "stack":
            maps = [dict(self.types[p].inputs) for p in op["parts"]]
        elif t == "cat":
            maps = [{k: v for k, v in self.types[p].inputs.items() if k != op["name"]} for p in op["parts"]]
        elif t == "subs":
            keys = {k for k, _ in op["subs"]}
            a = self.types[op["a"]]
            maps = [{k: v for k, v in a.inputs.items() if k not in keys}]
            for k, val in op["subs"]:
                if val[0] == "val":
                    maps.append(dict(self.types[val[1]].inputs))
                elif val[0] == "name":
                    maps.append({val[1]: a.inputs[k]})
                elif val[0] == "slice":
                    maps.append({val[1]: Bint[len(range(val[2], val[3], val[4]))]})  # strided
        elif t == "getitem" and op["index"][0] == "val":
            maps = [dict(self.types[op["a"]].inputs), dict(self.types[op["index"][1]].inputs)]
        seen = {}
        for m in maps:
            for k, d in m.items():
                if seen.setdefault(k, d) != d:
                    return False
        return True

    def data(self, kind, n):
        r = self.r
        if kind == "real":
            return [round(r.uniform(-2.0, 2.0), 3) for _ in range(n)]
        if kind == "pos":
            return [round(r.uniform(0.1, 2.5), 3) for _ in range(n)]
        if kind == "bool":
            return [r.random() < 0.5 for _ in range(n)]
        raise KeyError(kind)

    def pick(self, pred=None):
        names = [n for n, v in self.types.items() if pred is None or pred(v)]
        if not names:
            return None
        # bias to recent values so programs are deep rather than wide
        if self.r.random() < 0.6:
            return names[-1 - min(len(names) - 1, int(self.r.expovariate(0.7)))]
        return self.r.choice(names)

    def is_family_value(self, v):
        if self.family_name == "bool":
            return v.output.dtype == 2 and not self._is_int(v)
        return v.output.dtype == "real"

    def may_be_infinite(self, name):
        """A Scatter by logaddexp / max / min fills the positions it does not write with the op's
        unit, an infinity: negating or subtracting such values leads to inf - inf."""
        return any(op["op"] == "scatter" and op["fn"] != "add" for op in prune(self.program, [name]))

    def may_be_zero(self, name):
        """Scatter fills the positions it does not write with exact zeros."""
        return any(op["op"] == "scatter" for op in prune(self.program, [name]))

    def _is_int(self, v):
        return any(self.types.get(n) is v for n in self.intvals)

    def pick_index(self, size):
        return self.pick(lambda v: v.output.dtype == size and v.output.shape == () and self._is_int(v))

    # -- leaves -------------------------------------------------------------
    def leaf_tensor(self, index_valued=False):
        r = self.r
        k = r.choice([0, 1, 1, 2, 2, 3])
        names = r.sample(NAMES, k)
        inputs = [[n, self.sizes[n]] for n in names]
        event = []
        if not index_valued and r.random() < 0.2 and self.max_event:
            event = [r.choice([1, 2, 3]) for _ in range(r.randint(1, self.max_event))]
        shape = [s for _, s in inputs] + event
        n = int(np.prod(shape)) if shape else 1
        if index_valued:
            size = self.sizes[r.choice(NAMES)]
            return self.emit(
                {"op": "tensor", "inputs": inputs, "shape": shape, "dtype": "int:%d" % size, "data": [r.randrange(size) for _ in range(n)]}
            )
        kind = self.fam["data"]
        return self.emit(
            {"op": "tensor", "inputs": inputs, "shape": shape, "dtype": "bool" if kind == "bool" else "float", "data": self.data(kind, n)}
        )

    def leaf_var(self):
        r = self.r
        if self.real_vars and r.random() < 0.3:
            return self.emit({"op": "var", "name": r.choice(["x", "y"]), "domain": ["real"]})
        n = r.choice(NAMES)
        return self.emit({"op": "var", "name": n, "domain": ["bint", self.sizes[n]]})

    def leaf_num(self):
        kind = self.fam["data"]
        if kind == "bool":
            return None
        return self.emit({"op": "num", "value": self.data(kind, 1)[0]})

    # -- composite ----------------------------------------------------------
    def step(self):
        r = self.r
        fam = self.fam
        kinds = [
            ("binary", 5),
            ("unary", 2),
            ("reduce", 4),
            ("subs", 4),
            ("leaf", 2),
            ("pyop", 1),
            ("getitem", 1),
            ("lambda", 1),
            ("stack", 1),
            ("cat", 1),
            ("evreduce", 1),
            ("align", 0.5),
            ("constant", 0.7),
            ("scatter", 0.5),
            ("getslice", 0.5),
            ("opcat", 0.5),
            ("approximate", 0.4),
            ("integrate", 0.6),
        ]
        if self.allow is not None:
            kinds = [(k, w) for k, w in kinds if k in self.allow]
        total = sum(w for _, w in kinds)
        x = r.uniform(0, total)
        for kind, w in kinds:
            x -= w
            if x <= 0:
                break
        fv = self.is_family_value
        if kind == "leaf":
            c = r.random()
            if c < 0.6:
                return self.leaf_tensor()
            if c < 0.8:
                return self.leaf_var()
            return self.leaf_num()
        if kind == "binary":
            a, b = self.pick(fv), self.pick(fv)
            if a is None or b is None:
                return None
            fn = r.choice(fam["binary"])
            if fn == "truediv" and self.may_be_zero(b):
                fn = "mul"  # x/0 and 0/0 are arithmetic edges, not rewrite questions
            if fn == "sub" and (self.may_be_infinite(a) or self.may_be_infinite(b)):
                fn = "add"  # inf - inf is an arithmetic edge, not a rewrite question
            sa, sb = self.types[a].output.shape, self.types[b].output.shape
            if self.family_name in ("ring", "tropical") and len(sa) == 1 and sa == sb and r.random() < 0.3:
                return self.emit({"op": "opeinsum", "equation": r.choice(["a,a->", "a,a->a", "a,b->ab" if False else "a,a->"]), "parts": [a, b]})
            if self.family_name in ("ring", "tropical") and len(sa) == 1 and sa == sb and r.random() < 0.4:
                fn = "matmul"  # inner product of two vector-valued terms
            return self.emit({"op": "binary", "fn": fn, "a": a, "b": b})
        if kind == "pyop":
            if self.family_name == "bool":
                return None
            a = self.pick(fv)
            if a is None:
                return None
            fn = r.choice([f for f in ("add", "sub", "mul") if f in fam["binary"]] or ["add"])
            if fn in ("sub", "mul") and self.may_be_infinite(a):
                fn = "add"
            return self.emit({"op": "pyop", "fn": fn, "a": a, "const": self.data(fam["data"], 1)[0], "rev": r.random() < 0.5})
        if kind == "unary":
            a = self.pick(fv)
            if a is None:
                return None
            fn = r.choice(fam["unary"])
            if fn == "reciprocal" and self.may_be_zero(a):
                fn = "sqrt"
            if fn in ("neg", "abs") and self.may_be_infinite(a):
                fn = "tanh" if "tanh" in fam["unary"] else "exp"
            return self.emit({"op": "unary", "fn": fn, "a": a})
        if kind == "reduce":
            a = self.pick(lambda v: fv(v) and any(d.dtype != "real" for d in v.inputs.values()))
            if a is None:
                return None
            cand = [n for n, d in self.types[a].inputs.items() if d.dtype != "real"]
            k = r.randint(1, len(cand))
            names = r.sample(cand, k)
            rv = [[n, self.types[a].inputs[n].size] for n in names]
            if r.random() < 0.12:  # a reduced variable the operand does not mention
                extra = [n for n in NAMES if n not in self.types[a].inputs]
                if extra:
                    n = r.choice(extra)
                    rv.append([n, self.sizes[n]])
            return self.emit({"op": "reduce", "fn": r.choice(fam["reduce"]), "a": a, "vars": rv})
        if kind == "subs":
            a = self.pick(lambda v: len(v.inputs) > 0)
            if a is None:
                return None
            ta = self.types[a]
            names = list(ta.inputs)
            k = r.randint(1, min(2, len(names)))
            subs = []
            for n in r.sample(names, k):
                d = ta.inputs[n]
                if d.dtype == "real":
                    c = r.random()
                    if c < 0.5:
                        subs.append([n, ["val", self._real_value()]])
                    else:
                        subs.append([n, ["name", r.choice(["x", "y", "z"])]])
                    continue
                c = r.random()
                if c < 0.3:
                    subs.append([n, ["int", r.randrange(d.size)]])
                elif c < 0.55:
                    # rename: to a fresh name, or onto a name of the same size (possibly already used)
                    same = [m for m in NAMES if self.sizes[m] == d.size and m != n]
                    if same and r.random() < 0.6:
                        subs.append([n, ["name", r.choice(same)]])
                    else:
                        self.fresh_names += 1
                        subs.append([n, ["name", "r%d" % self.fresh_names]])
                elif c < 0.9:
                    b = self.pick_index(d.size)
                    if b is None:
                        b = self._index_value(d.size)
                    if b is None:
                        continue
                    subs.append([n, ["val", b]])
                else:
                    if d.size >= 2:
                        start = r.randrange(d.size - 1)
                        stop = r.randint(start + 1, d.size)
                        step = r.choice([1, 1, 1, 2, 2, 3])
                        self.fresh_names += 1
                        subs.append([n, ["slice", r.choice([n, n, "s%d" % self.fresh_names]), start, stop, step, d.size]])
            if not subs or any(s[1][0] == "val" and s[1][1] is None for s in subs):
                return None
            out = self.emit({"op": "subs", "a": a, "subs": subs})
            # a slice of a slice of the same input (composition of strides and offsets)
            sl = [s for s in subs if s[1][0] == "slice"]
            if out and sl and r.random() < 0.6:
                name = sl[0][1][1]
                size = len(range(sl[0][1][2], sl[0][1][3], sl[0][1][4]))
                if size >= 2 and name in self.types[out].inputs:
                    start = r.randrange(size - 1)
                    stop = r.randint(start + 1, size)
                    out2 = self.emit({"op": "subs", "a": out, "subs": [[name, ["slice", name, start, stop, r.choice([1, 1, 2]), size]]]})
                    return out2 or out
            return out
        if kind == "getitem":
            a = self.pick(lambda v: len(v.output.shape) > 0)
            if a is None:
                return None
            size = self.types[a].output.shape[0]
            if r.random() < 0.5:
                return self.emit({"op": "getitem", "a": a, "index": ["int", r.randrange(size)]})
            b = self.pick_index(size)
            if b is None:
                b = self._index_value(size)
            if b is None:
                return None
            return self.emit({"op": "getitem", "a": a, "index": ["val", b]})
        if kind == "lambda":
            a = self.pick(lambda v: any(d.dtype != "real" for d in v.inputs.values()))
            if a is None:
                return None
            n = r.choice([n for n, d in self.types[a].inputs.items() if d.dtype != "real"])
            return self.emit({"op": "lambda", "a": a, "var": [n, self.types[a].inputs[n].size]})
        if kind in ("stack", "cat"):
            a = self.pick(fv)
            if a is None:
                return None
            ta = self.types[a]
            if kind == "stack":
                parts = [a] + [p for p in [self.pick(lambda v: v.output == ta.output) for _ in range(r.randint(0, 2))] if p]
                free = [n for n in NAMES if all(n not in self.types[p].inputs for p in parts)]
                if not free or len(parts) != self.sizes.get(free[0], -1) and False:
                    pass
                self.fresh_names += 1
                return self.emit({"op": "stack", "name": "t%d" % self.fresh_names, "parts": parts})
            cand = [n for n, d in ta.inputs.items() if d.dtype != "real"]
            if not cand:
                return None
            n = r.choice(cand)
            parts = [a] + [
                p
                for p in [self.pick(lambda v: v.output == ta.output and n in v.inputs and v.inputs[n].dtype != "real") for _ in range(r.randint(0, 2))]
                if p
            ]
            return self.emit({"op": "cat", "name": n, "parts": parts})
        if kind == "evreduce":
            a = self.pick(lambda v: fv(v) and len(v.output.shape) > 0)
            if a is None:
                return None
            fns = {"ring": ["sum", "prod"], "tropical": ["sum", "max", "min", "prod"], "log": ["sum", "max", "min", "logsumexp"], "bool": ["all", "any"]}[
                self.family_name
            ]
            return self.emit({"op": "evreduce", "fn": r.choice(fns), "a": a, "axis": r.choice([None, 0, -1])})
        if kind == "constant":
            a = self.pick(fv)
            if a is None:
                return None
            free = [n for n in NAMES if n not in self.types[a].inputs]
            if not free:
                return None
            names = r.sample(free, r.randint(1, min(2, len(free))))
            return self.emit({"op": "constant", "a": a, "const": [[n, self.sizes[n]] for n in names]})
        if kind == "scatter":
            if self.family_name == "bool":
                return None
            a = self.pick(lambda v: fv(v) and any(d.dtype != "real" for d in v.inputs.values()))
            if a is None:
                return None
            n = r.choice([n for n, d in self.types[a].inputs.items() if d.dtype != "real"])
            size = self.types[a].inputs[n].size
            dest = size + r.choice([0, 1, 2])
            index = r.sample(range(dest), size)  # injective
            self.fresh_names += 1
            # (tropical data is positive: a max-Scatter would fill with -inf and break the carrier)
            fn = {"ring": "add", "tropical": "add", "log": r.choice(["logaddexp", "add"])}[self.family_name]
            return self.emit({"op": "scatter", "fn": fn, "a": a, "var": [n, size], "index": index, "dest_size": dest, "name": "d%d" % self.fresh_names})
        if kind == "getslice":
            a = self.pick(lambda v: len(v.output.shape) > 0 and v.output.shape[0] >= 2)
            if a is None:
                return None
            size = self.types[a].output.shape[0]
            start = r.randrange(size - 1)
            return self.emit({"op": "getslice", "a": a, "start": start, "stop": r.randint(start + 1, size), "step": r.choice([None, None, 2])})
        if kind == "opcat":
            a = self.pick(lambda v: fv(v) and len(v.output.shape) > 0)
            if a is None:
                return None
            ta = self.types[a]
            b = self.pick(lambda v: v.output == ta.output) or a
            return self.emit({"op": r.choice(["opcat", "opstack"]), "parts": [a, b], "axis": r.choice([0, -1])})
        if kind == "integrate":
            # Integrate(log_measure, integrand, vars) over integer inputs: sum over vars of exp(log_measure) * integrand;
            # the variables may occur in the measure, in the integrand, or in one of them only
            if self.family_name not in ("log", "ring"):
                return None
            a = self.pick(lambda v: fv(v) and v.output == Real)
            b = self.pick(fv)
            if a is None or b is None:
                return None
            ints = {}
            for v in (self.types[a], self.types[b]):
                for n, d in v.inputs.items():
                    if d.dtype != "real":
                        ints[n] = d.size
            if not ints or any(d.dtype == "real" for v in (self.types[a], self.types[b]) for d in v.inputs.values()):
                return None
            names = r.sample(sorted(ints), r.randint(1, len(ints)))
            return self.emit({"op": "integrate", "a": a, "b": b, "vars": names})
        if kind == "approximate":
            if self.family_name not in ("log", "tropical"):
                return None
            a = self.pick(lambda v: fv(v) and v.output == Real and any(d.dtype != "real" for d in v.inputs.values()))
            if a is None:
                return None
            ta = self.types[a]
            b = self.pick(lambda v: fv(v) and v.output == Real) or a
            cand = [n for n, d in ta.inputs.items() if d.dtype != "real"]
            names = r.sample(cand, r.randint(1, len(cand)))
            return self.emit({"op": "approximate", "fn": "logaddexp" if self.family_name == "log" else "max", "a": a, "b": b, "vars": names})
        if kind == "align":
            a = self.pick(lambda v: len(v.inputs) > 1)
            if a is None:
                return None
            names = list(self.types[a].inputs)
            r.shuffle(names)
            return self.emit({"op": "align", "a": a, "names": names})
        return None

    def _index_value(self, size):
        r = self.r
        names = r.sample(NAMES, r.choice([0, 1, 1, 2]))
        inputs = [[n, self.sizes[n]] for n in names]
        shape = [s for _, s in inputs]
        n = int(np.prod(shape)) if shape else 1
        return self.emit({"op": "tensor", "inputs": inputs, "shape": shape, "dtype": "int:%d" % size, "data": [r.randrange(size) for _ in range(n)]})

    def _real_value(self):
        return self.pick(lambda v: v.output == Real and self.is_family_value(v)) or self.leaf_tensor()

    def generate(self, n_ops, n_leaves=3):
        for _ in range(n_leaves):
            self.leaf_tensor()
        if self.r.random() < 0.5:
            self.leaf_var()
        tries = 0
        made = 0
        while made < n_ops and tries < n_ops * 12:
            tries += 1
            if self.step() is not None:
                made += 1
        return self.program




SEMIRINGS = [
    # (sum op, product op, family for data)
    ("add", "mul", "ring"),
    ("add", "mul", "tropical"),
    ("logaddexp", "add", "log"),
    ("max", "mul", "tropical"),
    ("min", "mul", "tropical"),
    ("max", "add", "log"),
    ("min", "add", "log"),
    ("or_", "and_", "bool"),
]


def gen_semiring(r):
    """Nested sums of products: 3-5 factors over overlapping inputs combined by
    the product op (in a random association order), optionally an index
    substitution, then reduced by the sum op over shared variables in one or
    two stages, optionally combined with a further factor.  This is the shape of
    term that normalize / unfold / optimize / the n-ary eager Contraction rules
    are written for."""
    sum_op, prod_op, family = r.choice(SEMIRINGS)
    g = Gen(r, family=family, max_event=0, real_vars=False)
    k = r.randint(3, 5)
    shared = r.sample(NAMES, r.randint(1, 2))
    leaves = []
    for _ in range(k):
        names = set(n for n in shared if r.random() < 0.8)
        for n in NAMES:
            if n not in shared and r.random() < 0.3:
                names.add(n)
        names = sorted(names)
        r.shuffle(names)
        inputs = [[n, g.sizes[n]] for n in names]
        shape = [sz for _, sz in inputs]
        n_el = int(np.prod(shape)) if shape else 1
        kind = g.fam["data"]
        out = g.emit({"op": "tensor", "inputs": inputs, "shape": shape, "dtype": "bool" if kind == "bool" else "float", "data": g.data(kind, n_el)})
        if out:
            leaves.append(out)
    if len(leaves) < 2:
        return g.generate(4), g.family_name
    # product in a random association order; sometimes one factor occurs twice (the same object)
    pool = list(leaves)
    if r.random() < 0.3:
        pool.insert(r.randrange(len(pool) + 1), r.choice(leaves))
    while len(pool) > 1:
        i = r.randrange(len(pool) - 1) if r.random() < 0.7 else 0
        a, b = pool[i], pool[i + 1]
        out = g.emit({"op": "binary", "fn": prod_op, "a": a, "b": b})
        if out is None:
            break
        pool[i : i + 2] = [out]
    term = pool[0]
    if r.random() < 0.3:
        t = g.types[term]
        cand = [n for n in t.inputs]
        if cand:
            n = r.choice(cand)
            idx = g._index_value(t.inputs[n].size)
            if idx:
                out = g.emit({"op": "subs", "a": term, "subs": [[n, ["val", idx]]]})
                term = out or term
    for stage in range(r.choice([1, 1, 2])):
        t = g.types[term]
        cand = [n for n, d in t.inputs.items() if d.dtype != "real"]
        if not cand:
            break
        names = r.sample(cand, r.randint(1, len(cand)))
        rv = [[n, t.inputs[n].size] for n in names]
        if r.random() < 0.15:
            extra = [n for n in NAMES if n not in t.inputs]
            if extra:
                rv.append([extra[0], g.sizes[extra[0]]])
        out = g.emit({"op": "reduce", "fn": sum_op, "a": term, "vars": rv})
        if out is None:
            break
        term = out
        if r.random() < 0.4:
            other = g.leaf_tensor()
            if other:
                out = g.emit({"op": "binary", "fn": r.choice([prod_op, sum_op]) if sum_op not in ("logaddexp",) else prod_op, "a": term, "b": other})
                term = out or term
    return g.program, g.family_name


REALS = {"x": [], "y": [2], "z": []}


def gen_gauss(r):
    """Gaussian / Delta / Integrate workload (log-density semiring): Gaussians over
    1-3 real inputs with 0-2 batch inputs, log-weight tensors, Deltas; steps: add,
    negate, substitute real inputs by constants / other variables / affine
    expressions / batched tensors, substitute or reduce batch inputs, marginalise
    real inputs, Integrate against polynomial integrands."""
    g = Gen(r, family="log", max_event=0, real_vars=False)
    sizes = g.sizes
    vals = []

    def gauss_leaf():
        nb = r.choice([0, 0, 1, 1, 2])
        batch = [[n, sizes[n]] for n in r.sample(NAMES[:3], nb)]
        reals = [[n, REALS[n]] for n in sorted(r.sample(sorted(REALS), r.choice([1, 1, 2, 3])))]
        r.shuffle(reals)
        dim = sum(int(np.prod(sh)) if sh else 1 for _, sh in reals)
        nb_total = int(np.prod([sz for _, sz in batch])) if batch else 1
        op = {
            "op": "gaussian",
            "batch": batch,
            "reals": reals,
            "mats": [round(r.gauss(0, 1), 3) for _ in range(nb_total * dim * dim)],
            "locs": [round(r.gauss(0, 1), 3) for _ in range(nb_total * dim)],
        }
        if r.random() < 0.25:
            op["extra"] = [round(r.gauss(0, 1), 3) for _ in range(dim * r.choice([1, 2]))]
        return g.emit(op)

    def weights_leaf():
        nb = r.choice([1, 1, 2])
        names = r.sample(NAMES[:3], nb)
        inputs = [[n, sizes[n]] for n in names]
        shape = [sz for _, sz in inputs]
        return g.emit({"op": "tensor", "inputs": inputs, "shape": shape, "dtype": "float", "data": g.data("real", int(np.prod(shape)))})

    def real_value(shape, with_batch=True):
        n = int(np.prod(shape)) if shape else 1
        if with_batch and r.random() < 0.4:
            b = r.choice(NAMES[:3])
            return g.emit({"op": "tensor", "inputs": [[b, sizes[b]]], "shape": [sizes[b]] + list(shape), "dtype": "float", "data": g.data("real", sizes[b] * n)})
        return g.emit({"op": "tensor", "inputs": [], "shape": list(shape), "dtype": "float", "data": g.data("real", n)})

    for _ in range(r.randint(1, 3)):
        v = gauss_leaf()
        if v:
            vals.append(v)
    if r.random() < 0.6:
        v = weights_leaf()
        if v:
            vals.append(v)
    if not vals:
        return g.generate(4), g.family_name
    fresh = [0]

    def has_delta(name):
        return any(op["op"] == "delta" for op in prune(g.program, [name]))

    for _ in range(r.randint(2, 7)):
        c = r.random()
        a = r.choice(vals)
        ta = g.types[a]
        real_in = [n for n, d in ta.inputs.items() if d.dtype == "real"]
        int_in = [n for n, d in ta.inputs.items() if d.dtype != "real"]
        out = None
        if c < 0.22:
            b = r.choice(vals)
            fn = r.choice(["add", "add", "add", "sub"])
            if fn == "sub" and has_delta(b):
                fn = "add"  # (-inf) - (-inf) and x - (-inf) are arithmetic edge cases, not rewrite questions
            out = g.emit({"op": "binary", "fn": fn, "a": a, "b": b})
        elif c < 0.27:
            if not has_delta(a):
                out = g.emit({"op": "unary", "fn": "neg", "a": a})
        elif c < 0.52 and real_in:
            n = r.choice(real_in)
            shape = list(ta.inputs[n].shape)
            k = r.random()
            if k < 0.4:
                val = real_value(shape)
                if val:
                    out = g.emit({"op": "subs", "a": a, "subs": [[n, ["val", val]]]})
            elif k < 0.6:
                same = [m for m in REALS if REALS[m] == shape and m != n and m not in ta.inputs]
                fresh[0] += 1
                out = g.emit({"op": "subs", "a": a, "subs": [[n, ["name", r.choice(same) if same and r.random() < 0.5 else "w%d" % fresh[0]]]]})
            else:
                fresh[0] += 1
                aff = g.emit(
                    {
                        "op": "affine",
                        "name": r.choice(["u%d" % fresh[0]] + [m for m in REALS if REALS[m] == shape and m not in ta.inputs]),
                        "domain": ["reals", shape] if shape else ["real"],
                        "scale": round(r.uniform(0.5, 2.0), 2) * r.choice([1, -1]),
                        "shift": round(r.uniform(-1, 1), 2),
                    }
                )
                if aff:
                    out = g.emit({"op": "subs", "a": a, "subs": [[n, ["val", aff]]]})
        elif c < 0.62 and int_in:
            n = r.choice(int_in)
            d = ta.inputs[n]
            if r.random() < 0.2:
                # concatenation / stacking along a batch input (of Gaussians, joints, weights)
                same = [v for v in vals if v != a and dict(g.types[v].inputs) == dict(ta.inputs) and g.types[v].output == ta.output]
                other = r.choice(same) if same else a
                if r.random() < 0.7:
                    out = g.emit({"op": "cat", "name": n, "parts": [a, other]})
                else:
                    fresh[0] += 1
                    out = g.emit({"op": "stack", "name": "s%d" % fresh[0], "parts": [a, other]})
            elif r.random() < 0.5:
                out = g.emit({"op": "subs", "a": a, "subs": [[n, ["int", r.randrange(d.size)]]]})
            else:
                idx = g._index_value(d.size)
                if idx:
                    out = g.emit({"op": "subs", "a": a, "subs": [[n, ["val", idx]]]})
        elif c < 0.78 and real_in:
            names = r.sample(real_in, r.randint(1, len(real_in)))
            out = g.emit({"op": "reduce_real", "fn": "logaddexp", "a": a, "vars": names})
        elif c < 0.86 and int_in:
            n = r.choice(int_in)
            out = g.emit({"op": "reduce", "fn": r.choice(["add", "add", "logaddexp"]), "a": a, "vars": [[n, ta.inputs[n].size]]})
        elif c < 0.93 and real_in:
            n = r.choice(real_in)
            shape = list(ta.inputs[n].shape)
            k2 = r.random()
            if k2 < 0.25 and not shape:
                integrand = g.emit({"op": "var", "name": n, "domain": ["real"]})  # a bare Variable
            elif k2 < 0.45:
                integrand = r.choice([v for v in vals if g.types[v].output == Real] or [a])  # e.g. another Gaussian
                if r.random() < 0.35 and not has_delta(integrand):
                    integrand = g.emit({"op": "unary", "fn": "neg", "a": integrand})
            else:
                integrand = g.emit({"op": "affine", "name": n, "domain": ["reals", shape] if shape else ["real"], "scale": round(r.uniform(0.5, 2.0), 2), "shift": round(r.uniform(-1, 1), 2)})
            if integrand and shape and g.types[integrand].output != Real:
                integrand = g.emit({"op": "evreduce", "fn": "sum", "a": integrand, "axis": None})
            if integrand:
                ivars = [n]
                if r.random() < 0.4:
                    ivars = list(real_in)  # every real input of the measure at once
                if int_in and r.random() < 0.3:
                    ivars.append(r.choice(int_in))  # a batch input summed out by the same Integrate
                out = g.emit({"op": "integrate", "a": a, "b": integrand, "vars": ivars})
        elif c < 0.97 and real_in and int_in:
            # Independent: diagonalise a batch input into one vector-valued real input
            n = r.choice([m for m in real_in if not list(ta.inputs[m].shape)] or real_in)
            if not list(ta.inputs[n].shape):
                b = r.choice(int_in)
                fresh[0] += 1
                diag = "%s%d__%s" % (n, fresh[0], b)
                ren = g.emit({"op": "subs", "a": a, "subs": [[n, ["name", diag]]]})
                if ren:
                    out = g.emit({"op": "independent", "a": ren, "reals_var": "%s%d" % (n, fresh[0]), "bint_var": b, "diag_var": diag})
        elif real_in:
            # a Delta on one of the real inputs, added to the term
            n = r.choice(real_in)
            pt = real_value(list(ta.inputs[n].shape))
            if pt:
                d = g.emit({"op": "delta", "name": n, "point": pt})
                if d and len(real_in) >= 2 and r.random() < 0.4:
                    # a joint Delta over two names; integrate / marginalise ONE of them
                    m = r.choice([k for k in real_in if k != n])
                    pt2 = real_value(list(ta.inputs[m].shape))
                    d2 = g.emit({"op": "delta", "name": m, "point": pt2}) if pt2 else None
                    joint = g.emit({"op": "binary", "fn": "add", "a": d, "b": d2}) if d2 else None
                    if joint:
                        vals.append(joint)
                        g.emit({"op": "integrate", "a": joint, "b": a, "vars": [n]})
                        ja = g.emit({"op": "binary", "fn": "add", "a": joint, "b": a})
                        if ja:
                            g.emit({"op": "reduce_real", "fn": "logaddexp", "a": ja, "vars": [r.choice([n, m])]})
                if d:
                    if r.random() < 0.5:
                        out = g.emit({"op": "binary", "fn": "add", "a": d, "b": a})
                    else:
                        out = g.emit({"op": "binary", "fn": "add", "a": a, "b": d})
                    if r.random() < 0.3:
                        # the Delta itself as a measure: Integrate(Delta, integrand, {n})
                        ig = g.emit({"op": "affine", "name": n, "domain": ["reals", list(ta.inputs[n].shape)] if list(ta.inputs[n].shape) else ["real"], "scale": round(r.uniform(0.5, 2.0), 2), "shift": round(r.uniform(-1, 1), 2)})
                        if ig and list(ta.inputs[n].shape):
                            ig = g.emit({"op": "evreduce", "fn": "sum", "a": ig, "axis": None})
                        for integrand in (ig, a):
                            if integrand:
                                extra = g.emit({"op": "integrate", "a": d, "b": integrand, "vars": [n]})
                                if extra:
                                    vals.append(extra)
        if out:
            vals.append(out)
    return g.program, g.family_name


def corpus(r):
    """Scenario corpus: small hand-shaped programs (parameters drawn from the
    run's PRNG) that reach rare structures on purpose.  Returns a list of
    (program, family).  Every program is run under every interpretation
    setting by the engines that use it."""
    out = []

    def T(g, names, dtype="float"):
        inputs = [[n, g.sizes[n]] for n in names]
        shape = [sz for _, sz in inputs]
        n_el = int(np.prod(shape)) if shape else 1
        return g.emit({"op": "tensor", "inputs": inputs, "shape": shape, "dtype": dtype, "data": g.data(g.fam["data"], n_el)})

    # 1. slice of a slice of the same input, strided, through a lazy arithmetic term
    for _ in range(3):
        size = r.choice([5, 6, 7, 8])
        g = Gen(r, family="ring", sizes={"i": 2, "j": size, "k": 3, "l": 2}, max_event=0, real_vars=False)
        t = T(g, ["i", "j"])
        step1 = r.choice([1, 2, 2, 3])
        start1 = r.randrange(0, 2)
        stop1 = r.randint(size - 2, size)
        n1 = len(range(start1, stop1, step1))
        u = g.emit({"op": "unary", "fn": "exp", "a": t})
        s1 = g.emit({"op": "subs", "a": r.choice([t, u]), "subs": [["j", ["slice", "j", start1, stop1, step1, size]]]})
        if s1 and n1 >= 2:
            start2 = r.randrange(0, n1 - 1) if n1 > 2 else 0
            start2 = max(start2, 1) if n1 > 2 else start2
            stop2 = r.randint(start2 + 1, n1)
            s2 = g.emit({"op": "subs", "a": s1, "subs": [["j", ["slice", r.choice(["j", "q"]), start2, stop2, r.choice([1, 2]), n1]]]})
            if s2:
                g.emit({"op": "binary", "fn": "add", "a": s2, "b": s2})
        out.append((g.program, "ring"))
    # 2. a reduction used twice (shared binder) in products and sums
    for fam, red, prod in (("ring", "add", "mul"), ("log", "logaddexp", "add"), ("tropical", "max", "mul")):
        g = Gen(r, family=fam, max_event=0, real_vars=False)
        t = T(g, ["i", "j"])
        f = g.emit({"op": "reduce", "fn": red, "a": t, "vars": [["i", g.sizes["i"]]]})
        if f:
            p2 = g.emit({"op": "binary", "fn": prod, "a": f, "b": f})
            w = T(g, ["j", "k"])
            if p2 and w:
                q = g.emit({"op": "binary", "fn": prod, "a": p2, "b": w})
                if q:
                    g.emit({"op": "reduce", "fn": red, "a": q, "vars": [["j", g.sizes["j"]], ["l", g.sizes["l"]]]})
        out.append((g.program, fam))
    # 3. simultaneous substitution whose values mention substituted names; diagonal renames
    for _ in range(2):
        g = Gen(r, family="ring", max_event=0, real_vars=False)
        t = T(g, ["i", "j", "k"])
        same = [n for n in NAMES if n != "i" and g.sizes[n] == g.sizes["i"]]
        u = g.emit({"op": "unary", "fn": "tanh", "a": t})
        idx = g._index_value(g.sizes["k"])
        if u and idx:
            subs = [["k", ["val", idx]], ["j", ["int", r.randrange(g.sizes["j"])]]]
            if same:
                subs.append(["i", ["name", same[0]]])
            g.emit({"op": "subs", "a": u, "subs": subs})
            c = g.emit({"op": "cat", "name": "j", "parts": [u, u]})
            if c:
                g.emit({"op": "subs", "a": c, "subs": [["i", ["name", "j"]]] if g.sizes["i"] == 2 * g.sizes["j"] else [["k", ["val", idx]]]})
        out.append((g.program, "ring"))
    # 4. products of three and four factors sharing one reduced variable
    for fam, red, prod in (("ring", "add", "mul"), ("log", "logaddexp", "add")):
        g = Gen(r, family=fam, max_event=0, real_vars=False)
        a, b, c = T(g, ["i", "j"]), T(g, ["i", "k"]), T(g, ["i"])
        ab = g.emit({"op": "binary", "fn": prod, "a": a, "b": b})
        abc = g.emit({"op": "binary", "fn": prod, "a": ab, "b": c}) if ab else None
        if abc:
            g.emit({"op": "reduce", "fn": red, "a": abc, "vars": [["i", g.sizes["i"]]]})
            d = T(g, ["l"])
            abcd = g.emit({"op": "binary", "fn": prod, "a": abc, "b": d})
            if abcd:
                g.emit({"op": "reduce", "fn": red, "a": abcd, "vars": [["i", g.sizes["i"]], ["l", g.sizes["l"]], ["k", g.sizes["k"]]]})
        out.append((g.program, fam))
    # 5. division by a reduced product, subtraction of reductions (normalize's reciprocal / negation rules)
    g = Gen(r, family="tropical", max_event=0, real_vars=False)
    a, b, x = T(g, ["i", "j"]), T(g, ["i"]), T(g, ["j"])
    ab = g.emit({"op": "binary", "fn": "mul", "a": a, "b": b})
    den = g.emit({"op": "reduce", "fn": "add", "a": ab, "vars": [["i", g.sizes["i"]]]}) if ab else None
    if den:
        g.emit({"op": "binary", "fn": "truediv", "a": x, "b": den})
        g.emit({"op": "binary", "fn": "sub", "a": x, "b": den})
        rec = g.emit({"op": "unary", "fn": "reciprocal", "a": den})
        if rec:
            g.emit({"op": "binary", "fn": "mul", "a": rec, "b": x})
    out.append((g.program, "tropical"))
    # 6. marginals of Gaussians whose square-root factor is not square: every split of the real
    #    inputs into marginalised / kept blocks with  dim(marginalised) <= rank
    shapes = []
    for _ in range(2):
        reals = [[n, REALS[n]] for n in sorted(REALS)]
        r.shuffle(reals)
        reals = reals[: r.choice([2, 3])]
        dim = sum((int(np.prod(sh)) if sh else 1) for _, sh in reals)
        shapes.extend((reals, rank) for rank in range(1, dim + 2))  # every rank: deficient, square, over-complete
    for reals, rank in shapes:
        g = Gen(r, family="log", max_event=0, real_vars=False)
        dims = {n: (int(np.prod(sh)) if sh else 1) for n, sh in reals}
        dim = sum(dims.values())
        batch = [[n, g.sizes[n]] for n in r.sample(NAMES[:2], r.choice([0, 1]))]
        nb_total = int(np.prod([sz for _, sz in batch])) if batch else 1
        leaf = g.emit(
            {
                "op": "gaussian",
                "batch": batch,
                "reals": reals,
                "rank": rank,
                "mats": [round(r.gauss(0, 1), 3) for _ in range(nb_total * dim * rank)],
                "locs": [round(r.gauss(0, 1), 3) for _ in range(nb_total * rank)],
            }
        )
        if leaf:
            names = [n for n, _ in reals]
            for k in range(1, len(names) + 1):
                for sub in itertools.combinations(names, k):
                    if sum(dims[n] for n in sub) <= rank:
                        g.emit({"op": "reduce_real", "fn": "logaddexp", "a": leaf, "vars": list(sub)})
        out.append((g.program, "log"))
    # 7. non-commutative arithmetic between tensors and Constants whose constant inputs the tensor has
    for fam, fns in (("ring", ["sub"]), ("tropical", ["truediv", "sub"])):
        g = Gen(r, family=fam, max_event=0, real_vars=False)
        names = r.sample(NAMES[:3], 2)
        t = T(g, names + r.sample([n for n in NAMES if n not in names], r.choice([0, 1])))
        z = T(g, r.sample([n for n in NAMES if n not in names], r.choice([0, 1])))
        c = g.emit({"op": "constant", "a": z, "const": [[n, g.sizes[n]] for n in names[: r.choice([1, 2])]]}) if z else None
        if t and c:
            for fn in fns:
                g.emit({"op": "binary", "fn": fn, "a": t, "b": c})
                g.emit({"op": "binary", "fn": fn, "a": c, "b": t})
        out.append((g.program, fam))
    # 8. Integrate that sums batch inputs of the measure together with the real variable
    for _ in range(2):
        g = Gen(r, family="log", max_event=0, real_vars=False)
        n = r.choice(["x", "z"])
        batch = [[b, g.sizes[b]] for b in r.sample(NAMES[:3], r.choice([1, 2]))]
        nb_total = int(np.prod([sz for _, sz in batch]))
        leaf = g.emit(
            {
                "op": "gaussian",
                "batch": batch,
                "reals": [[n, []]],
                "mats": [round(r.gauss(0, 1), 3) for _ in range(nb_total)],
                "locs": [round(r.gauss(0, 1), 3) for _ in range(nb_total)],
            }
        )
        if leaf:
            integrands = [
                g.emit({"op": "var", "name": n, "domain": ["real"]}),
                g.emit({"op": "affine", "name": n, "domain": ["real"], "scale": round(r.uniform(0.5, 2.0), 2), "shift": round(r.uniform(-1, 1), 2)}),
                leaf,
            ]
            for integrand in integrands:
                if not integrand:
                    continue
                for k in range(0, len(batch) + 1):
                    for sub in itertools.combinations([b for b, _ in batch], k):
                        g.emit({"op": "integrate", "a": leaf, "b": integrand, "vars": [n] + list(sub)})
        out.append((g.program, "log"))
    # 9. Lambda over expressions that stay symbolic under eager (a bare variable, an index arithmetic
    #    expression), then indexed by an integer, a variable, an index tensor and slices
    for _ in range(2):
        g = Gen(r, family="ring", max_event=0, real_vars=False)
        n = r.choice(NAMES)
        size = g.sizes[n]
        v = g.emit({"op": "var", "name": n, "domain": ["bint", size]})
        t = T(g, [n] + r.sample([m for m in NAMES if m != n], r.choice([0, 1])))
        exprs = [v]
        if v and t:
            exprs.append(g.emit({"op": "subs", "a": t, "subs": [[n, ["val", v]]]}))
        for ex in exprs:
            if not ex:
                continue
            lam = g.emit({"op": "lambda", "a": ex, "var": [n, size]})
            if not lam:
                continue
            g.emit({"op": "getitem", "a": lam, "index": ["int", r.randrange(size)]})
            other = r.choice([m for m in NAMES if m != n])
            w = g.emit({"op": "var", "name": other, "domain": ["bint", size]}) if g.sizes[other] == size else None
            if w:
                g.emit({"op": "getitem", "a": lam, "index": ["val", w]})
            idx = g._index_value(size)
            if idx:
                g.emit({"op": "getitem", "a": lam, "index": ["val", idx]})
            if size >= 2:
                g.emit({"op": "getslice", "a": lam, "start": r.randrange(size - 1), "stop": size, "step": r.choice([None, 2])})
                g.emit({"op": "evreduce", "fn": "sum", "a": lam, "axis": None})
        out.append((g.program, "ring"))
    # 10. Independent over a Delta, a Delta + weights + Gaussian joint, a Gaussian, and a term without the diagonal variable
    for kind in ("delta:none", "delta:plate", "delta:const", "delta:other", "joint", "gauss", "delta_same:const", "joint_same"):
        kind, _, ldkind = kind.partition(":")
        g = Gen(r, family="log", max_event=0, real_vars=False)
        b = r.choice(NAMES[:3])
        size = g.sizes[b]
        diag = "x__" + b
        if kind.endswith("_same"):
            # the diagonal variable carries the SAME name as the resulting vector-valued one
            # (the form funsor.distribution itself uses: Independent(fn, "value", name, "value"))
            diag = "x"
            kind = kind[: -len("_same")]
        pt = g.emit({"op": "tensor", "inputs": [[b, size]], "shape": [size], "dtype": "float", "data": g.data("real", size)})
        w = g.emit({"op": "tensor", "inputs": [[b, size]], "shape": [size], "dtype": "float", "data": g.data("real", size)})
        term = None
        if kind in ("delta", "joint") and pt:
            other = r.choice([n for n in NAMES if n != b])
            lds = {
                "none": None,
                "plate": w,  # batched over the plate
                "const": g.emit({"op": "tensor", "inputs": [], "shape": [], "dtype": "float", "data": g.data("real", 1)}),
                "other": g.emit({"op": "tensor", "inputs": [[other, g.sizes[other]]], "shape": [g.sizes[other]], "dtype": "float", "data": g.data("real", g.sizes[other])}),
            }
            ld = lds[ldkind or r.choice(sorted(lds))]
            term = g.emit({"op": "delta", "name": diag, "point": pt, "ld": ld})
            if kind == "joint" and term and w:
                gy = g.emit({"op": "gaussian", "batch": [[b, size]], "reals": [["y", []]], "mats": [round(r.gauss(0, 1), 3) for _ in range(size)], "locs": [round(r.gauss(0, 1), 3) for _ in range(size)]})
                term = g.emit({"op": "binary", "fn": "add", "a": term, "b": w})
                if term and gy and r.random() < 0.7:
                    term = g.emit({"op": "binary", "fn": "add", "a": term, "b": gy})
        elif kind == "gauss":
            term = g.emit({"op": "gaussian", "batch": [[b, size]], "reals": [[diag, []]], "mats": [round(r.gauss(0, 1), 3) for _ in range(size)], "locs": [round(r.gauss(0, 1), 3) for _ in range(size)]})
        if term:
            ind = g.emit({"op": "independent", "a": term, "reals_var": "x", "bint_var": b, "diag_var": diag})
            if ind and kind != "trivial":
                val = g.emit({"op": "tensor", "inputs": [], "shape": [size], "dtype": "float", "data": g.data("real", size)})
                if val:
                    g.emit({"op": "subs", "a": ind, "subs": [["x", ["val", val]]]})
                if kind in ("delta", "joint") and pt:
                    # on the support: x = the stacked points themselves
                    on = g.emit({"op": "tensor", "inputs": [], "shape": [size], "dtype": "float", "data": list(g.program[[o["out"] for o in g.program].index(pt)]["data"])})
                    if on:
                        g.emit({"op": "subs", "a": ind, "subs": [["x", ["val", on]]]})
                if kind in ("delta", "joint"):
                    g.emit({"op": "reduce_real", "fn": "logaddexp", "a": ind, "vars": ["x"]})
        out.append((g.program, "log"))
    # 16. Align terms that survive eager evaluation (aligned expressions with a free real variable) on
    #     either side of non-commutative operations
    for fam, fns in (("ring", ["sub"]), ("tropical", ["truediv", "sub"])):
        g = Gen(r, family=fam, max_event=0, real_vars=True)
        t, w = T(g, ["i", "j"]), T(g, ["j"])
        xv = g.emit({"op": "var", "name": "x", "domain": ["real"]})
        e = g.emit({"op": "binary", "fn": "mul", "a": t, "b": xv}) if t and xv else None
        al = g.emit({"op": "align", "a": e, "names": ["x", "j", "i"]}) if e else None
        if al and w:
            for fn in fns:
                g.emit({"op": "binary", "fn": fn, "a": w, "b": al})
                g.emit({"op": "binary", "fn": fn, "a": al, "b": w})
                g.emit({"op": "binary", "fn": fn, "a": al, "b": al})
            for rt in g.program[-6:]:
                val = g.emit({"op": "tensor", "inputs": [], "shape": [], "dtype": "float", "data": g.data(g.fam["data"], 1)})
                if val and rt["op"] == "binary":
                    g.emit({"op": "subs", "a": rt["out"], "subs": [["x", ["val", val]]]})
        out.append((g.program, fam))
    # 17. indexing a tensor by an index tensor that has the same inputs in another order (equal sizes)
    g = Gen(r, family="ring", sizes={"i": 3, "j": 3, "k": 2, "l": 3}, max_event=1, real_vars=False)
    x = g.emit({"op": "tensor", "inputs": [["i", 3], ["j", 3]], "shape": [3, 3, 4], "dtype": "float", "data": g.data("real", 36)})
    for names in (["j", "i"], ["i", "j"], ["j"], ["j", "l"]):
        y = g.emit({"op": "tensor", "inputs": [[n, 3] for n in names], "shape": [3] * len(names), "dtype": "int:4", "data": [r.randrange(4) for _ in range(3 ** len(names))]})
        if x and y:
            g.emit({"op": "getitem", "a": x, "index": ["val", y]})
    out.append((g.program, "ring"))
    # 15. nested reductions (normalize fuses them into one contraction), then a substitution whose value
    #     mentions the user-level name of a variable that was reduced away
    for fam, red, prod in (("ring", "add", "mul"), ("log", "logaddexp", "add")):
        g = Gen(r, family=fam, sizes={"i": 2, "j": 3, "k": 3, "l": 2}, max_event=0, real_vars=False)
        x, y = T(g, ["i", "j", "k"]), T(g, ["j", "k"])
        xy = g.emit({"op": "binary", "fn": prod, "a": x, "b": y}) if x and y else None
        r1 = g.emit({"op": "reduce", "fn": red, "a": xy, "vars": [["i", 2]]}) if xy else None
        r2 = g.emit({"op": "reduce", "fn": red, "a": r1, "vars": [["j", 3]]}) if r1 else None
        if r2:
            g.emit({"op": "subs", "a": r2, "subs": [["k", ["name", "j"]]]})
            idx = g.emit({"op": "tensor", "inputs": [["j", 3]], "shape": [3], "dtype": "int:3", "data": [r.randrange(3) for _ in range(3)]})
            if idx:
                g.emit({"op": "subs", "a": r2, "subs": [["k", ["val", idx]]]})
            vj = g.emit({"op": "var", "name": "j", "domain": ["bint", 3]})
            if vj:
                g.emit({"op": "subs", "a": r2, "subs": [["k", ["val", vj]]]})
            z = T(g, ["j"])
            if z:
                g.emit({"op": "binary", "fn": prod, "a": r2, "b": z})
        out.append((g.program, fam))
    # 14. a Gaussian integrated against a Gaussian integrand over the same real inputs listed in another order
    g = Gen(r, family="log", max_event=0, real_vars=False)
    reals = [["x", []], ["y", [2]]] if r.random() < 0.5 else [["x", []], ["z", []]]
    dim = sum((int(np.prod(sh)) if sh else 1) for _, sh in reals)
    bt = [[b0, g.sizes[b0]] for b0 in r.sample(NAMES[:2], r.choice([0, 1]))]
    nbt = int(np.prod([sz for _, sz in bt])) if bt else 1
    mk = lambda rs, batch, nb: g.emit({"op": "gaussian", "batch": batch, "reals": rs, "mats": [round(r.gauss(0, 1), 3) for _ in range(nb * dim * dim)], "locs": [round(r.gauss(0, 1), 3) for _ in range(nb * dim)]})  # noqa: E731
    meas = mk(reals, bt, nbt)
    integ = mk(list(reversed(reals)), [], 1)
    integ_b = mk(list(reversed(reals)), bt, nbt)
    for ig in (integ, integ_b):
        if meas and ig:
            g.emit({"op": "integrate", "a": meas, "b": ig, "vars": [n for n, _ in reals]})
            g.emit({"op": "integrate", "a": meas, "b": ig, "vars": [n for n, _ in reals] + [b0 for b0, _ in bt]})
    out.append((g.program, "log"))
    # 13. sums of two weighted Gaussians sharing a real input, marginalised (the mixture-times-mixture contraction)
    g = Gen(r, family="log", max_event=0, real_vars=False)
    b = r.choice(NAMES[:2])
    leaves = []
    for reals in ([["x", []]], [["x", []], ["z", []]]):
        dim = len(reals)
        nb = g.sizes[b]
        leaves.append(
            g.emit({"op": "gaussian", "batch": [[b, nb]], "reals": reals, "mats": [round(r.gauss(0, 1), 3) for _ in range(nb * dim * dim)], "locs": [round(r.gauss(0, 1), 3) for _ in range(nb * dim)]})
        )
    w1 = T(g, [b])
    if all(leaves) and w1:
        m1 = g.emit({"op": "binary", "fn": "add", "a": w1, "b": leaves[0]})
        m2 = g.emit({"op": "binary", "fn": "add", "a": leaves[1], "b": w1})
        if m1 and m2:
            tot = g.emit({"op": "binary", "fn": "add", "a": m1, "b": m2})
            if tot:
                g.emit({"op": "reduce_real", "fn": "logaddexp", "a": tot, "vars": ["x"]})
                g.emit({"op": "reduce_real", "fn": "logaddexp", "a": tot, "vars": ["x", "z"]})
    out.append((g.program, "log"))
    # 12. reductions over variables the operand does not mention, alone and together with one it does,
    #     for every reduction op of the family (each interpretation has its own rule for the multiplicity)
    for fam in ("ring", "log", "tropical"):
        g = Gen(r, family=fam, max_event=0, real_vars=False)
        t = T(g, ["i", "j"])
        u = g.emit({"op": "unary", "fn": FAMILIES[fam]["unary"][-1], "a": t}) if t else None
        for a in (t, u):
            if not a:
                continue
            for fn in FAMILIES[fam]["reduce"]:
                g.emit({"op": "reduce", "fn": fn, "a": a, "vars": [["k", g.sizes["k"]]]})
                g.emit({"op": "reduce", "fn": fn, "a": a, "vars": [["i", g.sizes["i"]], ["l", g.sizes["l"]]]})
        st = g.emit({"op": "stack", "name": "s9", "parts": [t, g.emit({"op": "num", "value": 1.5})]}) if t else None
        if st:
            for fn in FAMILIES[fam]["reduce"][:2]:
                g.emit({"op": "reduce", "fn": fn, "a": st, "vars": [["s9", 2]]})
        out.append((g.program, fam))
    # 11. successive substitutions of real values into a Gaussian over three real inputs, in every
    #     order of two inputs (lazily these fuse into one Subs whose pairs are not in input order)
    g = Gen(r, family="log", max_event=0, real_vars=False)
    reals = [[n, REALS[n]] for n in sorted(REALS)]
    r.shuffle(reals)
    dim = sum((int(np.prod(sh)) if sh else 1) for _, sh in reals)
    batch = [[b, g.sizes[b]] for b in r.sample(NAMES[:2], r.choice([0, 1]))]
    nb_total = int(np.prod([sz for _, sz in batch])) if batch else 1
    leaf = g.emit(
        {
            "op": "gaussian",
            "batch": batch,
            "reals": reals,
            "mats": [round(r.gauss(0, 1), 3) for _ in range(nb_total * dim * dim)],
            "locs": [round(r.gauss(0, 1), 3) for _ in range(nb_total * dim)],
        }
    )
    if leaf:
        vals = {}
        for n, sh in reals:
            inputs = [list(batch[0])] if batch and r.random() < 0.5 else []
            shape = [sz for _, sz in inputs] + list(sh)
            vals[n] = g.emit({"op": "tensor", "inputs": inputs, "shape": shape, "dtype": "float", "data": g.data("real", int(np.prod(shape)) if shape else 1)})
        for n1, n2 in itertools.permutations([n for n, _ in reals], 2):
            if vals[n1] and vals[n2]:
                s1 = g.emit({"op": "subs", "a": leaf, "subs": [[n1, ["val", vals[n1]]]]})
                if s1:
                    g.emit({"op": "subs", "a": s1, "subs": [[n2, ["val", vals[n2]]]]})
    out.append((g.program, "log"))
    return [(p, f) for p, f in out if len(p) >= 2]
