"""Shared oracle machinery (DESIGN.md section 5): denotation of a funsor on its
finite input space via *clean* eager evaluation of ground instances, value
comparison, and canonical structural digests for event logs."""

import hashlib
import itertools
import re

import numpy as np

import funsor
from funsor import interpreter
from funsor.interpretations import eager, sequential
from funsor.tensor import Tensor
from funsor.terms import Funsor, Number, Variable

from . import seams

MAX_POINTS = 256
OVERFLOW = 1e150
REAL_POINTS = {  # seeded sample points for real-valued free inputs
    0: 0.37,
    1: -1.21,
}
REAL_POINTS_BY_CARRIER = {
    # free real inputs must stay inside the carrier on which the program's
    # semiring is declared (C02's side condition): non-negative for max/min with mul
    "tropical": {0: 0.37, 1: 1.21},
}


def set_carrier(family):
    REAL_POINTS.clear()
    REAL_POINTS.update(REAL_POINTS_BY_CARRIER.get(family, {0: 0.37, 1: -1.21}))


class Declined(Exception):
    """Evaluation did not complete to concrete numbers (allowed by the
    properties): counted, never alarmed."""


def _clean(fn, *args):
    """Run under the default interpretation with no controller and no faults."""
    saved = seams.CONTROLLER[0]
    seams.CONTROLLER[0] = None
    base = list(interpreter._STACK)
    try:
        # evaluate on a pristine stack: [reflect, eager]
        interpreter._STACK[:] = base[:2]
        return fn(*args)
    finally:
        interpreter._STACK[:] = base
        seams.CONTROLLER[0] = saved


def _as_array(x):
    """Concrete value of a ground funsor as ndarray, else None."""
    if isinstance(x, Number):
        return np.asarray(x.data)
    if isinstance(x, Tensor) and not x.inputs:
        return np.asarray(x.data)
    return None


def _ground_value(f, point):
    """Value of funsor f at a full assignment of its inputs."""
    g = f(**point) if point else f
    arr = _as_array(g)
    if arr is not None:
        return arr
    g2 = interpreter.reinterpret(g)
    arr = _as_array(g2)
    if arr is not None:
        return arr
    with sequential:
        g3 = interpreter.reinterpret(g2)
    arr = _as_array(g3)
    if arr is not None:
        return arr
    raise Declined("ground instance did not evaluate: %s" % type(g3).__name__)


def input_axes(inputs):
    """[(name, kind, size)] with kind in {'int','real'}; real inputs get
    len(REAL_POINTS) sample points."""
    out = []
    for name, dom in inputs.items():
        if dom.dtype == "real":
            out.append((name, ("real", tuple(dom.shape)), len(REAL_POINTS)))
        else:
            if dom.shape != ():
                raise Declined("non-scalar integer input %s" % name)
            out.append((name, ("int", dom.size), dom.size))
    return out


def _point_value(kind, idx, name):
    if kind[0] == "int":
        return Number(idx, kind[1])
    shape = kind[1]
    base = REAL_POINTS[idx]
    if shape == ():
        # a 0-d Tensor rather than a Number: Gaussian substitution crashes on Number data
        return Tensor(np.array(base, dtype=np.float64))
    n = int(np.prod(shape))
    # deterministic, name-dependent, non-constant sample point
    off = (sum(map(ord, name)) % 7) * 0.1
    return Tensor((base + off + 0.31 * np.arange(n, dtype=np.float64)).reshape(shape))


def denote(f, stats=None):
    """Returns (axes, values) where axes = [(name, kind, size)] sorted by name
    and values has shape sizes + f.output.shape.  Evaluation is point-wise
    through ground instances unless f already is a concrete Tensor over
    integer inputs (then the data is read off directly)."""

    def run():
        if not isinstance(f, Funsor):
            raise Declined("not a funsor: %r" % type(f))
        axes = sorted(input_axes(f.inputs))
        names = [a[0] for a in axes]
        sizes = [a[2] for a in axes]
        npoints = int(np.prod(sizes)) if sizes else 1
        if isinstance(f, Number):
            return axes, np.asarray(f.data)
        if isinstance(f, Tensor) and all(a[1][0] == "int" for a in axes):
            order = list(f.inputs)
            perm = [order.index(n) for n in names]
            nb = len(order)
            data = np.asarray(f.data)
            data = data.transpose(perm + list(range(nb, data.ndim)))
            return axes, data
        if npoints > MAX_POINTS:
            raise Declined("input space too large: %d" % npoints)
        if stats is not None:
            stats["pointwise"] = stats.get("pointwise", 0) + 1
        out = None
        for idx in itertools.product(*[range(s) for s in sizes]):
            point = {n: _point_value(a[1], i, n) for n, a, i in zip(names, axes, idx)}
            val = _ground_value(f, point)
            if val.shape != tuple(f.output.shape):
                try:
                    val = np.broadcast_to(val, tuple(f.output.shape))
                except ValueError:
                    raise MismatchShape("ground value has shape %s, declared output %s" % (val.shape, f.output))
            if out is None:
                out = np.empty(tuple(sizes) + tuple(f.output.shape), dtype=np.result_type(val.dtype, np.float64) if val.dtype.kind == "f" else val.dtype)
            out[idx] = val
        return axes, out

    return _clean(run)


class MismatchShape(Exception):
    pass


def compare(f, g, rtol=1e-6, atol=1e-7):
    """Compare two funsors as functions on the union of their free inputs
    (either may lack inputs its value does not depend on).  Returns None if
    they agree, else a description of the first disagreement; raises Declined
    when either side does not evaluate."""
    if f.output != g.output:
        return "output domains differ: %s vs %s" % (f.output, g.output)
    for n in g.inputs:
        if n in f.inputs and g.inputs[n] != f.inputs[n]:
            return "input %s has domain %s vs %s" % (n, g.inputs[n], f.inputs[n])
    try:
        fa, fv = denote(f)
        ga, gv = denote(g)
    except MismatchShape as e:
        return str(e)
    faxes = {a[0]: a for a in fa}
    gaxes = {a[0]: a for a in ga}
    names = sorted(set(faxes) | set(gaxes))
    sizes = [(faxes.get(n) or gaxes[n])[2] for n in names]

    def expand(vals, own):
        index = tuple(slice(None) if n in own else None for n in names)
        v = vals[index] if index else vals
        return np.broadcast_to(v, tuple(sizes) + tuple(vals.shape[len(own) :]))

    try:
        fvb, gvb = expand(np.asarray(fv), faxes), expand(np.asarray(gv), gaxes)
    except ValueError:
        return "value arrays do not broadcast: %s vs %s" % (np.shape(fv), np.shape(gv))
    return compare_arrays(fvb, gvb, rtol, atol, names)


def compare_arrays(a, b, rtol=1e-6, atol=1e-7, names=()):
    a = np.asarray(a)
    b = np.asarray(b)
    if a.shape != b.shape:
        return "shapes differ: %s vs %s" % (a.shape, b.shape)
    if a.dtype.kind in "biu" and b.dtype.kind in "biu":
        bad = a.astype(np.int64) != b.astype(np.int64)
    else:
        af = a.astype(np.float64)
        bf = b.astype(np.float64)
        # Overflow region: two evaluation orders of the same expression may land
        # on inf and on 1.4e308 respectively; beyond OVERFLOW only the sign is
        # compared (an arithmetic edge, never a scheduling or rewrite question).
        with np.errstate(all="ignore"):
            af = np.where(np.abs(af) > OVERFLOW, np.sign(af) * np.inf, af)
            bf = np.where(np.abs(bf) > OVERFLOW, np.sign(bf) * np.inf, bf)
        nan_a, nan_b = np.isnan(af), np.isnan(bf)
        inf_a, inf_b = np.isinf(af), np.isinf(bf)
        fin = ~(nan_a | nan_b | inf_a | inf_b)
        scale = 1.0
        if fin.any():
            scale = max(1.0, float(np.max(np.abs(af[fin]))), float(np.max(np.abs(bf[fin]))))
        with np.errstate(all="ignore"):
            close = np.abs(af - bf) <= atol * scale + rtol * np.maximum(np.abs(af), np.abs(bf))
        bad = np.where(fin, ~close, False)
        bad |= nan_a != nan_b
        bad |= inf_a != inf_b
        bad |= inf_a & inf_b & (np.sign(af) != np.sign(bf))
    if not bad.any():
        return None
    idx = tuple(int(i[0]) for i in np.nonzero(bad)) if bad.ndim else ()
    return "values differ at %s=%s: %r vs %r (%d of %d cells differ)" % (
        list(names),
        list(idx),
        a[idx].tolist() if bad.ndim else a.tolist(),
        b[idx].tolist() if bad.ndim else b.tolist(),
        int(bad.sum()),
        int(bad.size),
    )


###############################################################################
# canonical structural digests

_BOUND_RE = re.compile(r"__BOUND_\d+")


def canon(x, depth=0):
    """Structural, address-free description of a value."""
    if isinstance(x, Tensor):
        data = np.asarray(x.data)
        if data.dtype.kind == "f":
            data = np.round(data.astype(np.float64), 9) + 0.0
        h = hashlib.sha1(np.ascontiguousarray(data).tobytes()).hexdigest()[:10]
        return ["Tensor", [[k, repr(v)] for k, v in x.inputs.items()], repr(x.output), h]
    if isinstance(x, Number):
        d = x.data
        return ["Number", round(float(d), 9) if isinstance(d, float) else d, repr(x.output)]
    if isinstance(x, Variable):
        return ["Variable", _BOUND_RE.sub("__B", x.name), repr(x.output)]
    if isinstance(x, Funsor):
        if depth > 40:
            return [type(x).__name__, "..."]
        return [funsor.typing.get_origin(type(x)).__name__] + [canon(v, depth + 1) for v in x._ast_values]
    if isinstance(x, (tuple, list)):
        return [canon(v, depth + 1) for v in x]
    if isinstance(x, frozenset):
        return ["frozenset"] + sorted((canon(v, depth + 1) for v in x), key=repr)
    if isinstance(x, dict):
        return ["dict"] + [[canon(k, depth + 1), canon(v, depth + 1)] for k, v in x.items()]
    if isinstance(x, str):
        return _BOUND_RE.sub("__B", x)
    if isinstance(x, np.ndarray):
        return ["ndarray", list(x.shape), hashlib.sha1(np.ascontiguousarray(x).tobytes()).hexdigest()[:10]]
    if isinstance(x, (int, float, bool, type(None))):
        return x
    if isinstance(x, funsor.ops.Op):
        return "ops." + x.__name__
    if isinstance(x, type):
        return repr(x)
    return repr(x) if not hasattr(x, "__dict__") else type(x).__name__


def digest(x):
    import json

    return hashlib.sha1(json.dumps(canon(x), sort_keys=True, default=repr).encode()).hexdigest()[:12]
