"""World-host main loop.  Started by sim.world.Host with the world's
environment; imports funsor from the repository's working tree once, then forks
one child per job."""

import gc
import importlib
import json
import os
import sys

# the protocol owns the real stdout; anything funsor prints goes to stderr
_proto_out = os.fdopen(os.dup(1), "wb", buffering=0)
os.dup2(2, 1)
sys.stdout = sys.stderr

VERIF_DIR = os.path.dirname(os.path.dirname(os.path.abspath(__file__)))
if VERIF_DIR not in sys.path:
    sys.path.insert(0, VERIF_DIR)


def main():
    gc.disable()
    import funsor

    funsor.set_backend("numpy")
    from sim import seams  # noqa  (imports every funsor submodule the engines use)
    from sim.iso import fork_call

    seams.world_init()
    # import every engine now, so that the forked state does not depend on job order
    import pkgutil

    import checks

    for m in sorted(pkgutil.iter_modules(checks.__path__), key=lambda m: m.name):
        try:
            importlib.import_module("checks." + m.name)
        except Exception:  # noqa
            pass
    gc.collect()
    gc.freeze()
    hello = {
        "funsor": os.path.dirname(funsor.__file__),
        "verif_hook": bool(funsor._verif.ENABLED) if hasattr(funsor, "_verif") else False,
        "hash_counter": funsor._verif.COUNTER[0] if hasattr(funsor, "_verif") else None,
        "pid": os.getpid(),
    }
    _proto_out.write((json.dumps(hello) + "\n").encode())
    for line in sys.stdin.buffer:
        line = line.strip()
        if not line:
            continue
        job = json.loads(line)
        try:
            mod = importlib.import_module("checks." + job["engine"])
            fn = getattr(mod, job["fn"])
        except Exception as e:  # noqa
            import traceback

            res = {"status": "error", "err": traceback.format_exc()}
        else:
            res = fork_call(fn, (job["payload"],), timeout=job.get("timeout", 120))
        _proto_out.write((json.dumps(res) + "\n").encode())


if __name__ == "__main__":
    main()
