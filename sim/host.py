"""World-host main loop.  Started by sim.world.Host with the world's
environment; imports funsor from the repository's working tree once, then forks
one child per job."""

import gc
import importlib
import json
import os
import sys

# the protocol owns the real stdout; anything funsor prints goes to stderr
_proto_out = os.fdopen(os.dup(1), "wb", buffering=0)
os.dup2(2, 1)
sys.stdout = sys.stderr

VERIF_DIR = os.path.dirname(os.path.dirname(os.path.abspath(__file__)))
if VERIF_DIR not in sys.path:
    sys.path.insert(0, VERIF_DIR)


def main():
    gc.disable()
    import funsor

    funsor.set_backend("numpy")
    from sim import seams  # noqa  (imports every funsor submodule the engines use)
    from sim.iso import fork_call

    seams.world_init()
    # import every engine now, so that the forked state does not depend on job order
    import pkgutil

    import checks

    for m in sorted(pkgutil.iter_modules(checks.__path__), key=lambda m: m.name):
        try:
            importlib.import_module("checks." + m.name)
        except Exception:  # noqa
            pass
    gc.collect()
    gc.freeze()
    hello = {
        "funsor": os.path.dirname(funsor.__file__),
        "verif_hook": bool(funsor._verif.ENABLED) if hasattr(funsor, "_verif") else False,
        "hash_counter": funsor._verif.COUNTER[0] if hasattr(funsor, "_verif") else None,
        "pid": os.getpid(),
    }
    _proto_out.write((json.dumps(hello) + "\n").encode())
    # Every job is served by a child forked from this process *before* the job is
    # read, so the state a job starts from (heap free lists included: id recycling
    # is observable) never depends on the jobs this host served earlier.
    while True:
        pid = os.fork()
        if pid == 0:
            code = 0
            try:
                code = _serve_one(fork_call)
            except BaseException:  # noqa
                import traceback

                traceback.print_exc()
                try:
                    _proto_out.write((json.dumps({"status": "error", "err": traceback.format_exc()}) + "\n").encode())
                except Exception:  # noqa
                    pass
                code = 4
            finally:
                os._exit(code)
        _, status = os.waitpid(pid, 0)
        if os.WEXITSTATUS(status) == 3 or not os.WIFEXITED(status):
            break


def _read_exact(n):
    chunks = []
    while n > 0:
        b = os.read(0, min(n, 1 << 20))
        if not b:
            return None
        chunks.append(b)
        n -= len(b)
    return b"".join(chunks)


def _serve_one(fork_call):
    """Read one length-prefixed job from fd 0 (unbuffered), run it, answer."""
    header = b""
    while not header.endswith(b"\n"):
        b = os.read(0, 1)
        if not b:
            return 3  # end of input: the host is done
        header += b
    data = _read_exact(int(header))
    if data is None:
        return 3
    job = json.loads(data)
    try:
        mod = importlib.import_module("checks." + job["engine"])
        fn = getattr(mod, job["fn"])
    except Exception:  # noqa
        import traceback

        res = {"status": "error", "err": traceback.format_exc()}
    else:
        res = fork_call(fn, (job["payload"],), timeout=job.get("timeout", 120))
    _proto_out.write((json.dumps(res) + "\n").encode())
    return 0


if __name__ == "__main__":
    main()
