#!/bin/sh
# Offline setup: nothing to build or install. Verify that the interpreter the
# checks use sees the repository's working tree and the guarded hook.
set -e
cd "$(dirname "$0")"
FUNSOR_VERIF=1 FUNSOR_VERIF_HASHSEED=1 PYTHONPATH=/repo:$(pwd) /venv/bin/python - <<'PY'
import sys, funsor, numpy, multipledispatch, opt_einsum, jsonschema
assert funsor.__file__.startswith("/repo/"), funsor.__file__
assert funsor._verif.ENABLED
assert hasattr(sys, "monitoring")
print("setup ok: python", sys.version.split()[0], "numpy", numpy.__version__, "funsor from", funsor.__file__)
PY
mkdir -p evidence replays
