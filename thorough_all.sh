#!/bin/sh
for c in C16 C14 C07 C20 C03 C02 C17; do ./check $c --tier thorough --seed ${1:-0} 2>&1 | grep -E "VIOLATION|invariant:|^done|HARNESS|KNOWN" | cut -c1-400; done
