"""C14 - point masses and samples: Delta semantics and mass-preserving sampling.

Engine `rng`: the simulator owns the draw stream (numpy.random.rand/randn are
replaced by a per-run deterministic stream) and injects boundary draws; the
identities of DESIGN.md section 6 (C14) must hold for every draw.  Determinism
is checked by re-running the same stream after a different prefix of unrelated
work, a collection, a fresh-name jump, a dispatch-cache drop, and in another
hash world."""

import itertools
import json
import math

from sim import world as W

PROPERTY = "C14"
LEVEL = "exploration"
BUDGET = {"quick": 170, "thorough": 3000}
ASSUMPTIONS = [
    "numpy backend: the discrete sampler is funsor's own inverse-CDF code in Tensor._sample, the Gaussian noise comes from ops.randn -> numpy.random.randn",
    "edge draws are values numpy.random.rand can return (in [0, 1)): 0.0, the smallest subnormal, CDF breakpoints of the row and their float neighbours, 1-2**-53",
    "float comparison rtol=1e-6 for mass identities; support and index range are exact",
]

NAMES = ["a", "b", "c"]

###############################################################################
# planning (pure python: cases carry their data)


def gen_tensor_case(r, cid):
    k = r.choice([1, 1, 2, 2, 3])
    names = r.sample(NAMES, k)
    sizes = [r.choice([1, 2, 2, 3, 3, 4]) for _ in names]
    n = 1
    for s in sizes:
        n *= s
    data = []
    for _ in range(n):
        c = r.random()
        if c < 0.25:
            data.append(None)  # -inf
        elif c < 0.3:
            data.append(-745.0 + r.uniform(-40, 40))  # probabilities near/below the subnormal range
        else:
            data.append(round(r.uniform(-3, 3), 3))
    nsamp = r.randint(1, k)
    sampled = r.sample(names, nsamp)
    if r.random() < 0.25:
        # rows (batch elements) on very different log scales: each row must be normalised on its own
        lead = sizes[0]
        per = n // lead
        for i in range(lead):
            off = r.choice([0.0, -900.0, 800.0, -1500.0])
            for j in range(per):
                if data[i * per + j] is not None:
                    data[i * per + j] = round(data[i * per + j] + off, 3)
    nsi = r.choice([0, 0, 1, 1, 2])
    sample_inputs = [["p%d" % i, r.choice([1, 2, 3])] for i in range(nsi)]
    return {"kind": "tensor", "cid": cid, "names": names, "sizes": sizes, "data": data, "sampled": sampled, "sample_inputs": sample_inputs}


def gen_gaussian_case(r, cid, force=None):
    nb = r.choice([0, 0, 1, 2])
    batch = [[n, r.choice([1, 2, 3])] for n in r.sample(["a", "b"], nb)]
    nreal = r.choice([1, 2, 2, 3])
    reals = []
    for n in r.sample(["x", "y", "z"], nreal):
        reals.append([n, r.choice([[], [], [2], [1], [2, 1]])])
    dim = sum(int(math.prod(s)) for _, s in reals)
    bshape = [s for _, s in batch]
    nb_total = int(math.prod(bshape)) if bshape else 1
    mats = [[round(r.gauss(0, 1), 3) for _ in range(dim * dim)] for _ in range(nb_total)]
    locs = [[round(r.gauss(0, 1), 3) for _ in range(dim)] for _ in range(nb_total)]
    nsamp = r.randint(1, nreal)
    sampled = [n for n, _ in r.sample(reals, nsamp)]
    mode = r.choice(["eager", "eager", "reparam"])
    nsi = r.choice([0, 1, 1, 2]) if mode == "eager" else 0
    sample_inputs = [["p%d" % i, r.choice([1, 2, 3])] for i in range(nsi)]
    sqrt = r.choice(["chol", "rotated", "negdiag", "wide", "wide_offset", "deficient"]) if mode == "eager" else r.choice(["chol", "rotated", "negdiag"])
    if force:
        # the scenario corpus of the sampler: every kind of factor, with a layout that reaches its special branch
        mode = "eager"
        sqrt = force
        if force == "deficient":
            reals = [["x", []], ["y", [2]], ["z", []]]
            r.shuffle(reals)
            sampled = [r.choice(["x", "z"])]
            dim = 4
            mats = [[round(r.gauss(0, 1), 3) for _ in range(dim * dim)] for _ in range(nb_total)]
            locs = [[round(r.gauss(0, 1), 3) for _ in range(dim)] for _ in range(nb_total)]
        elif force in ("wide", "wide_offset"):
            sampled = [n for n, _ in reals]  # full sampling
        nsi = r.choice([0, 1])
        sample_inputs = [["p%d" % i, r.choice([1, 2, 3])] for i in range(nsi)]
    da = sum(int(math.prod(s)) for n, s in reals if n in sampled)
    extra = {}
    if sqrt == "deficient":
        if da >= dim:
            sqrt = "wide_offset"  # sampling every real input needs a proper Gaussian
        elif force:
            extra["rank"] = r.choice([2, 3])  # sampled dim (1) < rank <= remaining dim (3)
        else:
            extra["rank"] = r.randint(da, dim - 1)
    if sqrt == "wide_offset":
        extra["rank"] = dim + r.choice([1, 1, 2, dim])
    if "rank" in extra:
        # the factor is used as given (dim x rank), with a white vector that need not lie in its row space
        extra["factor"] = [[round(r.gauss(0, 1), 3) for _ in range(dim * extra["rank"])] for _ in range(nb_total)]
        extra["white"] = [[round(r.gauss(0, 1), 3) for _ in range(extra["rank"])] for _ in range(nb_total)]
    return {
        **extra,
        "kind": "gaussian",
        "sqrt": sqrt,
        "cid": cid,
        "batch": batch,
        "reals": reals,
        "mats": mats,
        "locs": locs,
        "sampled": sampled,
        "mode": mode,
        "sample_inputs": sample_inputs,
    }


def gen_mixture_case(r, cid):
    """log-weights d(i[,a]) plus a Gaussian g(i[,a]; reals): a Gaussian mixture."""
    ni = r.choice([2, 3])
    batch = [["i", ni]] + ([["a", r.choice([1, 2])]] if r.random() < 0.4 else [])
    r.shuffle(batch)
    nreal = r.choice([1, 1, 2])
    reals = [[n, r.choice([[], [], [2]])] for n in r.sample(["x", "y"], nreal)]
    dim = sum(int(math.prod(s)) for _, s in reals)
    nb_total = int(math.prod([s for _, s in batch]))
    mats = [[round(r.gauss(0, 1), 3) for _ in range(dim * dim)] for _ in range(nb_total)]
    locs = [[round(r.gauss(0, 1), 3) for _ in range(dim)] for _ in range(nb_total)]
    wnames = [n for n, _ in batch if n == "i" or r.random() < 0.5]
    wsizes = [dict(batch)[n] for n in wnames]
    weights = [round(r.uniform(-2, 2), 3) for _ in range(int(math.prod(wsizes)))]
    sampled = r.choice([["i"], ["i"], ["i"] + [n for n, _ in reals], ["i"] + [reals[0][0]], [n for n, _ in reals]])
    nsi = r.choice([0, 0, 1])
    return {
        "kind": "mixture",
        "sqrt": r.choice(["chol", "rotated"]),
        "cid": cid,
        "batch": batch,
        "reals": reals,
        "mats": mats,
        "locs": locs,
        "wnames": wnames,
        "weights": weights,
        "sampled": sampled,
        "mode": "eager",
        "sample_inputs": [["p%d" % i, r.choice([1, 2, 3])] for i in range(nsi)],
    }


def gen_delta_case(r, cid):
    return {
        "kind": "delta",
        "cid": cid,
        "point": r.choice(["number", "tensor", "lazy", "int", "vector", "vector", "matrix"]),
        "value": round(r.uniform(-2, 2), 3),
        "ld": r.choice([0.0, 0.0, round(r.uniform(-2, 2), 3)]),
        "batch": r.choice([0, 1, 2]),
        "g": r.choice(["poly", "tensorfn", "exp"]),
        "joint": r.choice([None, None, "number", "tensor"]),
    }


def plan(seed, tier):
    nworlds = 4 if tier == "quick" else 8
    worlds = [W.make_world(seed, i) for i in range(nworlds)]
    for i, w in enumerate(worlds):
        w["typecheck"] = 1 if i % 4 == 3 else 0
        w["tco"] = i % 2
    ncases = 1200 if tier == "quick" else 20000
    chunk = 25 if tier == "quick" else 50
    r = W.rng(seed, "c14", "cases")
    cases = []
    for cid in range(ncases):
        c = r.random()
        if c < 0.6:
            cases.append(gen_tensor_case(r, cid))
        elif c < 0.8:
            cases.append(gen_gaussian_case(r, cid))
        elif c < 0.87:
            cases.append(gen_mixture_case(r, cid))
        else:
            cases.append(gen_delta_case(r, cid))
    for kind in ("deficient", "wide_offset", "wide", "rotated", "negdiag", "chol"):
        for _ in range(4 if tier == "quick" else 12):
            cases.append(gen_gaussian_case(r, len(cases), force=kind))
    for _ in range(8 if tier == "quick" else 40):
        cases.append(gen_mixture_case(r, len(cases)))
    ncases = len(cases)
    jobs = []
    for ci in range(0, ncases, chunk):
        group = cases[ci : ci + chunk]
        # every chunk runs in two worlds: the runner compares the digests
        w0 = (ci // chunk) % nworlds
        for wi in (w0, (w0 + 1 + (ci // chunk) // nworlds) % nworlds):
            jobs.append(
                {
                    "world": worlds[wi],
                    "fn": "run_cases",
                    "payload": {"cases": group, "seed": "%s/c14/%d" % (seed, ci), "group": ci, "tier": tier},
                    "timeout": 1200,
                }
            )
    return jobs


###############################################################################
# child side


class Violation(Exception):
    def __init__(self, invariant, message):
        super().__init__(message)
        self.invariant = invariant
        self.message = message


def _mk_tensor(case):
    from collections import OrderedDict

    import numpy as np

    import funsor

    data = np.array([(-np.inf if v is None else v) for v in case["data"]], dtype=np.float64).reshape(case["sizes"])
    inputs = OrderedDict((n, funsor.Bint[s]) for n, s in zip(case["names"], case["sizes"]))
    return funsor.Tensor(data, inputs)


def _row_layout(case):
    """(batch names, event names) in the order Tensor._sample uses."""
    batch = [n for n in case["names"] if n not in case["sampled"]]
    event = [n for n in case["names"] if n in case["sampled"]]
    return batch, event


def _cdf_rows(case):
    """The CDF rows as the sampler computes them: array [batch..., E]."""
    import numpy as np

    t = _mk_tensor(case)
    batch, event = _row_layout(case)
    order = [case["names"].index(n) for n in batch + event]
    logits = t.data.transpose(order)
    bshape = logits.shape[: len(batch)]
    flat = logits.reshape(bshape + (-1,))
    with np.errstate(all="ignore"):
        m = np.amax(flat, -1, keepdims=True)
        p = np.exp(flat - m)
        p = p / np.sum(p, -1, keepdims=True)
        s = np.cumsum(p, -1)
    return s, p, flat


def _valid_tensor_case(case):
    import numpy as np

    s, p, flat = _cdf_rows(case)
    return bool(np.all(np.isfinite(np.amax(flat, -1))))


def _edge_editor(case, r, stats):
    """Returns an edit callback for RandomStream: replaces each uniform draw,
    independently, by a boundary value of its own row's CDF."""
    import numpy as np

    s, p, flat = _cdf_rows(case)
    bnd = len(s.shape) - 1

    def edit(kind, out, ncall):
        if kind != "rand":
            return out
        out = np.array(out, dtype=np.float64)
        # out has shape sample_shape + batch_shape
        nsamp = out.ndim - bnd
        it = np.ndindex(*out.shape)
        for idx in it:
            if r.random() < 0.7:
                row = s[idx[nsamp:]] if bnd else s
                choice = r.random()
                if choice < 0.25:
                    v, name = 0.0, "zero"
                elif choice < 0.35:
                    v, name = 5e-324, "subnormal"
                elif choice < 0.5:
                    v, name = 1.0 - 2.0**-53, "one-ulp-below-1"
                else:
                    k = r.randrange(len(row))
                    base = float(row[k])
                    j = r.choice([0, 0, -1, 1])
                    v = base if j == 0 else float(np.nextafter(base, 2.0 * j))
                    name = "breakpoint" if j == 0 else "breakpoint-neighbour"
                if not (0.0 <= v < 1.0):
                    v = min(max(v, 0.0), 1.0 - 2.0**-53)
                out[idx] = v
                stats["edge_draws"][name] = stats["edge_draws"].get(name, 0) + 1
                # reach probes for the two rare branches
                if v >= float(row[-1]):
                    stats["edge_draws"]["probe:draw>=final-cdf"] = stats["edge_draws"].get("probe:draw>=final-cdf", 0) + 1
                if v <= float(row[0]) and float(row[0]) == 0.0:
                    stats["edge_draws"]["probe:draw-on-leading-zero-mass"] = stats["edge_draws"].get("probe:draw-on-leading-zero-mass", 0) + 1
        return out

    return edit


def _check_tensor_sample(case, t, S, stats):
    """Exact identities for one discrete sample funsor S of t."""
    import numpy as np

    import funsor
    from funsor import ops

    from sim import oracle

    sampled = case["sampled"]
    batch, event = _row_layout(case)
    want_inputs = set(case["names"]) | {n for n, _ in case["sample_inputs"]}
    # (a) inputs / output
    if set(S.inputs) != want_inputs:
        raise Violation("sample-inputs", "sample has inputs %s, expected %s" % (sorted(S.inputs), sorted(want_inputs)))
    if S.output != t.output:
        raise Violation("sample-output", "sample has output %s, expected %s" % (S.output, t.output))
    # materialise S over the event space
    esizes = [case["sizes"][case["names"].index(n)] for n in event]
    out_names = [n for n, _ in case["sample_inputs"]] + batch
    out_sizes = [s for _, s in case["sample_inputs"]] + [case["sizes"][case["names"].index(n)] for n in batch]
    G = np.empty(tuple(esizes) + tuple(out_sizes))
    for pt in itertools.product(*[range(s) for s in esizes]):
        val = S(**dict(zip(event, pt)))
        axes, arr = oracle.denote(val)
        names = [a[0] for a in axes]
        idx = tuple(slice(None) if n in names else None for n in sorted(out_names))
        arr = np.asarray(arr, dtype=np.float64)
        arr = np.broadcast_to(arr[idx] if idx else arr, tuple(out_sizes[out_names.index(n)] for n in sorted(out_names)))
        # reorder from sorted(out_names) to out_names
        perm = [sorted(out_names).index(n) for n in out_names]
        G[pt] = arr.transpose(perm) if perm else arr
    ne = len(esizes)
    finite = np.isfinite(G)
    if np.isnan(G).any() or (G == np.inf).any():
        raise Violation("sample-support", "sample funsor takes the value nan/+inf somewhere")
    count = finite.reshape((-1,) + tuple(out_sizes)).sum(0)
    if not np.all(count == 1):
        raise Violation(
            "sample-support",
            "for some (particle, batch element) the sample is finite at %s points of the event space instead of exactly one"
            % sorted(set(np.unique(count).tolist())),
        )
    # (b) support: the finite point must have positive mass under t
    tdata = t.data.transpose([case["names"].index(n) for n in event + batch])  # event..., batch...
    nsi = len(case["sample_inputs"])
    tb = np.broadcast_to(tdata.reshape(tuple(esizes) + (1,) * nsi + tdata.shape[ne:]), G.shape)
    bad = finite & ~np.isfinite(tb)
    stats["points_checked"] += int(finite.sum())
    if bad.any():
        where = tuple(int(i[0]) for i in np.nonzero(bad))
        raise Violation(
            "sample-support",
            "a sampled point lies outside the support: event point %s at (particle, batch) index %s has log-mass -inf in the original"
            % (dict(zip(event, where[:ne])), where[ne:]),
        )
    # (c) mass
    with np.errstate(all="ignore"):
        m = G.reshape((-1,) + tuple(out_sizes))
        mx = np.max(m, 0)
        mass_s = mx + np.log(np.sum(np.exp(m - mx), 0))
        tm = tdata.reshape((-1,) + tdata.shape[ne:])
        tmx = np.max(tm, 0)
        mass_t = tmx + np.log(np.sum(np.exp(tm - tmx), 0))
    mass_t = np.broadcast_to(mass_t.reshape((1,) * nsi + mass_t.shape), mass_s.shape)
    msg = oracle.compare_arrays(mass_t, mass_s, rtol=1e-6, atol=1e-9, names=out_names)
    if msg is not None:
        raise Violation("sample-mass", "total mass of the sample differs from the original's: " + msg)
    # (c') the same identity through funsor's own reduction rules (drives Delta add/reduce rules)
    try:
        red_s = S.reduce(ops.logaddexp, frozenset(sampled))
        red_t = t.reduce(ops.logaddexp, frozenset(sampled))
        msg = oracle.compare(red_t, red_s, rtol=1e-6, atol=1e-9)
    except (oracle.Declined, AssertionError, NotImplementedError):
        stats["declined"] += 1
        msg = None
    if msg is not None:
        raise Violation("sample-mass-via-reduce", "sample.reduce(logaddexp, sampled) differs from original.reduce(...): " + msg)
    stats["identities"] += 4


def _check_montecarlo_integrate(case, t, S, si, stats):
    """The MonteCarlo interpretation of Integrate(t, g, vars) must equal the
    exact integral of g against the sample drawn from the same random state
    (a deterministic function of the state, through Delta integration rules)."""
    from collections import OrderedDict

    import numpy as np

    import funsor
    from funsor import ops
    from funsor.integrate import Integrate
    from funsor.montecarlo import MonteCarlo

    from sim import oracle, seams

    gdata = 0.25 + 0.5 * np.arange(int(np.prod(case["sizes"]))).reshape(case["sizes"]) % 3.0
    g = funsor.Tensor(gdata, OrderedDict((n, funsor.Bint[s]) for n, s in zip(case["names"], case["sizes"])))
    rvars = frozenset(funsor.Variable(n, funsor.Bint[case["sizes"][case["names"].index(n)]]) for n in case["sampled"])
    stream = seams.RandomStream(case["cid"] * 7 + 1)
    try:
        with seams.random_stream(stream):
            with MonteCarlo(**si):
                mc = Integrate(t, g, rvars)
        exact = Integrate(S, g, rvars)
        msg = oracle.compare(funsor.reinterpret(exact), funsor.reinterpret(mc), rtol=1e-6, atol=1e-9)
    except (oracle.Declined, AssertionError, NotImplementedError, ValueError):
        stats["declined"] += 1
        return
    stats["identities"] += 1
    stats["montecarlo_integrals"] = stats.get("montecarlo_integrals", 0) + 1
    if msg is not None:
        raise Violation(
            "montecarlo-integrate",
            "Integrate under MonteCarlo differs from the exact integral against the sample of the same random state: " + msg,
        )


def _check_integrate_against_sample(case, S, si, stats):
    """Integrate(S, g, V) for the drawn sample S and every V between the sampled
    variables and all of the tensor's inputs, against the definition computed
    densely: sum over V of exp(S) * g, with S evaluated point by point."""
    from collections import OrderedDict

    import numpy as np

    import funsor
    from funsor.integrate import Integrate

    from sim import oracle

    sizes = dict(zip(case["names"], case["sizes"]))
    gdata = 0.25 + 0.5 * np.arange(int(np.prod(case["sizes"]))).reshape(case["sizes"]) % 3.0
    g = funsor.Tensor(gdata, OrderedDict((n, funsor.Bint[sizes[n]]) for n in case["names"]))
    rest = [n for n in case["names"] if n not in case["sampled"]]
    try:
        axes, vals = oracle.denote(S)
    except oracle.Declined:
        stats["declined"] += 1
        return
    anames = [a[0] for a in axes]
    with np.errstate(all="ignore"):
        w = np.exp(np.asarray(vals, dtype=np.float64))
    # g aligned to the axes of S (S has every input of the tensor plus the sample inputs)
    gidx = tuple(slice(None) if n in sizes else None for n in anames)
    gperm = [case["names"].index(n) for n in anames if n in sizes]
    gal = np.asarray(gdata).transpose(gperm)[gidx]
    for k in range(len(rest) + 1):
        V = list(case["sampled"]) + rest[:k]
        want = (w * gal).sum(axis=tuple(anames.index(n) for n in V))
        keep = [n for n in anames if n not in V]
        ref = funsor.Tensor(want, OrderedDict((n, funsor.Bint[dict((a[0], a[2]) for a in axes)[n]]) for n in keep))
        rvars = frozenset(funsor.Variable(n, funsor.Bint[sizes[n]]) for n in V)
        try:
            got = funsor.reinterpret(Integrate(S, g, rvars))
            msg = oracle.compare(ref, got, rtol=1e-6, atol=1e-9)
        except (oracle.Declined, AssertionError, NotImplementedError, ValueError):
            stats["declined"] += 1
            continue
        stats["identities"] += 1
        stats["integrals_against_samples"] = stats.get("integrals_against_samples", 0) + 1
        if msg is not None:
            raise Violation(
                "integrate-against-sample",
                "Integrate(sample of %s, g, %s) differs from the sum over %s of exp(sample) * g computed point by point: %s" % (sorted(case["sampled"]), sorted(V), sorted(V), msg),
            )


def _mk_gaussian(case):
    from collections import OrderedDict

    import numpy as np

    import funsor
    from funsor.gaussian import Gaussian

    bshape = tuple(s for _, s in case["batch"])
    dim = sum(int(math.prod(s)) for _, s in case["reals"])
    A = np.array(case["mats"], dtype=np.float64).reshape(bshape + (dim, dim))
    P = A @ np.swapaxes(A, -1, -2) + 0.5 * np.eye(dim)
    L = np.linalg.cholesky(P)
    sqrt_kind = case.get("sqrt", "chol")
    if sqrt_kind == "rotated":
        # another square root of the same precision: L Q with Q orthogonal
        Q, _ = np.linalg.qr(np.array(case["mats"][0], dtype=np.float64).reshape(dim, dim) + 2.0 * np.eye(dim))
        L = L @ Q
    elif sqrt_kind == "negdiag":
        signs = np.array([(-1.0) ** (i + 1) for i in range(dim)])
        L = L * signs  # flips the sign of every other column; L L^T unchanged
    elif sqrt_kind == "wide":
        # rank > dim: [L/sqrt2 , L/sqrt2] has the same L L^T
        L = np.concatenate([L, L], -1) / np.sqrt(2.0)
    loc = np.array(case["locs"], dtype=np.float64).reshape(bshape + (dim,))
    # white_vec with  prec_sqrt @ white_vec = P loc :  least-norm solution  white = prec_sqrt^T loc
    white = (np.swapaxes(L, -1, -2) @ loc[..., None])[..., 0]
    if sqrt_kind in ("wide_offset", "deficient"):
        rank = case["rank"]
        L = np.array(case["factor"], dtype=np.float64).reshape(bshape + (dim, rank))
        if sqrt_kind == "wide_offset":
            L = L + np.concatenate([1.5 * np.eye(dim), np.zeros((dim, rank - dim))], -1)  # keep it well conditioned
        white = np.array(case["white"], dtype=np.float64).reshape(bshape + (rank,))
        P = L @ np.swapaxes(L, -1, -2)
        loc = None
    eta = (L @ white[..., None])[..., 0]  # information vector:  log density = -x'Px/2 + x'eta + const
    inputs = OrderedDict((n, funsor.Bint[s]) for n, s in case["batch"])
    for n, shape in case["reals"]:
        inputs[n] = funsor.Reals[tuple(shape)]
    return Gaussian(white_vec=white, prec_sqrt=L, inputs=inputs), P, loc, eta


def _check_gaussian(case, stats, stream_seed):
    """Reparametrised / eager Gaussian samples against a dense model of the
    sampler's contract."""
    from collections import OrderedDict

    import numpy as np

    import funsor
    from funsor import ops

    from sim import oracle, seams

    g, P, loc, eta = _mk_gaussian(case)
    sampled = frozenset(case["sampled"])
    reals = case["reals"]
    a_idx, b_idx = [], []
    off = 0
    offsets = {}
    for n, shape in reals:
        k = int(math.prod(shape))
        offsets[n] = (off, k, shape)
        (a_idx if n in sampled else b_idx).extend(range(off, off + k))
        off += k
    da = len(a_idx)
    bshape = tuple(s for _, s in case["batch"])
    # conditional of a given b = b0 under precision P, mean loc:
    Paa = P[..., a_idx, :][..., :, a_idx]
    Pab = P[..., a_idx, :][..., :, b_idx] if b_idx else None
    b0 = {}
    bvec = np.zeros(bshape + (len(b_idx),))
    pos = 0
    for n, shape in reals:
        if n not in sampled:
            k = int(math.prod(shape))
            val = 0.3 + 0.2 * np.arange(k)
            b0[n] = funsor.Tensor(val.reshape(tuple(shape)))
            bvec[..., pos : pos + k] = val
            pos += k
    # conditional of the sampled block given b = bvec, in information form:
    #   mean_a|b = Paa^-1 (eta_a - Pab b),  cov_a|b = Paa^-1
    rhs_a = eta[..., a_idx]
    if b_idx:
        rhs_a = rhs_a - (Pab @ bvec[..., None])[..., 0]
    mean_a = np.linalg.solve(Paa, rhs_a[..., None])[..., 0]
    cov_a = np.linalg.inv(Paa)
    sample_inputs = OrderedDict((n, funsor.Bint[s]) for n, s in case["sample_inputs"])

    def draw(noise_fn):
        stream = seams.RandomStream(stream_seed)

        def edit(kind, out, ncall):
            if kind != "randn":
                return out
            return noise_fn(np.array(out))

        stream.edit = edit
        with seams.random_stream(stream):
            if case["mode"] == "reparam":
                # the noise input carries one vector per batch element: Reals[batch..., dim]
                si = OrderedDict(noise=funsor.Reals[bshape + (da,)])
                S = g.sample(sampled, si)
            else:
                S = g.sample(sampled, sample_inputs)
        return S, stream

    def points(S, noise_value=None):
        """Extract the sampled point per (particle, batch): via Delta semantics:
        S(**b0) as a function of the sampled variables is a point mass; read the
        point off the Delta terms."""
        from funsor.delta import Delta
        from funsor.montecarlo import extract_samples

        subs = dict(b0)
        if noise_value is not None:
            subs["noise"] = funsor.Tensor(np.broadcast_to(noise_value, bshape + (da,)).copy())
        T = S(**subs) if subs else S
        T = funsor.reinterpret(T)
        ex = extract_samples(T)
        out = {}
        for name, pt in ex.items():
            axes, arr = oracle.denote(pt)
            out[name] = ([a[0] for a in axes], np.asarray(arr, dtype=np.float64))
        return out, T

    # (a) inputs
    S0, stream0 = draw(lambda z: np.zeros_like(z))
    want = set(n for n, _ in case["batch"]) | set(n for n, _ in reals)
    want |= {"noise"} if case["mode"] == "reparam" else set(sample_inputs)
    if set(S0.inputs) != want:
        raise Violation("sample-inputs", "Gaussian sample has inputs %s, expected %s" % (sorted(S0.inputs), sorted(want)))
    if S0.output != funsor.Real:
        raise Violation("sample-output", "Gaussian sample has output %s" % (S0.output,))
    # (e) noise 0 -> the (conditional) mean
    z0 = np.zeros(da) if case["mode"] == "reparam" else None
    pts0, T0 = points(S0, z0)
    if set(pts0) != set(sampled):
        raise Violation("sample-points", "sample binds %s, expected %s" % (sorted(pts0), sorted(sampled)))

    def flat_point(pts):
        # -> array [particles..., batch..., da] ordered like a_idx
        parts = []
        for n, shape in reals:
            if n in sampled:
                names, arr = pts[n]
                # bring to (sample inputs..., batch...) order
                target = [m for m in sample_inputs] + [m for m, _ in case["batch"]] if case["mode"] != "reparam" else [m for m, _ in case["batch"]]
                sizes = [dict(case["sample_inputs"]).get(m) or dict(case["batch"]).get(m) for m in target]
                idx = tuple(slice(None) if m in names else None for m in sorted(target))
                ev = arr.shape[len(names) :]
                a = arr[idx + (Ellipsis,)] if idx else arr
                a = np.broadcast_to(a, tuple(sizes[target.index(m)] for m in sorted(target)) + ev)
                perm = [sorted(target).index(m) for m in target]
                a = a.transpose(perm + list(range(len(perm), a.ndim)))
                parts.append(a.reshape(a.shape[: len(target)] + (-1,)))
        return np.concatenate(parts, -1)

    p0 = flat_point(pts0)
    ns = len(sample_inputs) if case["mode"] != "reparam" else 0
    mean_b = np.broadcast_to(mean_a.reshape((1,) * ns + mean_a.shape), p0.shape)
    msg = oracle.compare_arrays(mean_b, p0, rtol=1e-6, atol=1e-8)
    if msg is not None:
        raise Violation("gaussian-mean", "with zero noise the sample is not the (conditional) mean: " + msg)
    stats["identities"] += 2
    # (e) unit noise e_k -> columns of A with A A^T = cov
    cols = []
    for k in range(da):
        def noise_k(z, k=k):
            z = np.zeros_like(z)
            z[..., k] = 1.0
            return z

        if case["mode"] == "reparam":
            zk = np.zeros(da)
            zk[k] = 1.0
            ptsk, _ = points(S0, zk)
        else:
            Sk, _ = draw(noise_k)
            ptsk, _ = points(Sk, None)
        cols.append(flat_point(ptsk) - p0)
    Amat = np.stack(cols, -1)  # [..., da, da]
    cov_hat = Amat @ np.swapaxes(Amat, -1, -2)
    cov_b = np.broadcast_to(cov_a.reshape((1,) * ns + cov_a.shape), cov_hat.shape)
    msg = oracle.compare_arrays(cov_b, cov_hat, rtol=1e-5, atol=1e-8)
    if msg is not None:
        raise Violation("gaussian-covariance", "the sample is not an affine map of the noise with the Gaussian's covariance: " + msg)
    stats["identities"] += 1
    # (c) mass: sample.reduce(logaddexp, sampled) == g.reduce(logaddexp, sampled), at b0
    Sr, _ = draw(lambda z: z)
    zr = 0.1 * np.arange(1, da + 1) if case["mode"] == "reparam" else None
    subs = dict(b0)
    if zr is not None:
        subs["noise"] = funsor.Tensor(np.broadcast_to(zr, bshape + (da,)).copy())
    lhs = Sr.reduce(ops.logaddexp, sampled)
    lhs = lhs(**subs) if subs else lhs
    rhs = g.reduce(ops.logaddexp, sampled)
    rhs = rhs(**b0) if b0 else rhs
    try:
        msg = oracle.compare(funsor.reinterpret(rhs), funsor.reinterpret(lhs), rtol=1e-6, atol=1e-8)
    except oracle.Declined:
        stats["declined"] += 1
        msg = None
    if msg is not None:
        raise Violation("sample-mass-via-reduce", "Gaussian sample.reduce(logaddexp, sampled) differs from the marginal: " + msg)
    stats["identities"] += 1
    # the same mass against the closed form of a quadratic fitted through point evaluations of g
    # (funsor's own marginal shares a helper with the sampler)
    from sim import refint

    bnames = [n for n, _ in case["batch"]]
    lhs_r = funsor.reinterpret(lhs)
    for bidx in list(itertools.product(*[range(sz) for _, sz in case["batch"]]))[:6]:
        bpoint = {n: funsor.Number(i, dict(case["batch"])[n]) for n, i in zip(bnames, bidx)}
        try:
            want = refint.marginal_at(g, sorted(sampled), dict(b0, **bpoint))
        except oracle.Declined:
            want = None
        if want is None:
            stats["reference_silent"] = stats.get("reference_silent", 0) + 1
            continue
        sub = {k: v for k, v in bpoint.items() if k in lhs_r.inputs}
        got = lhs_r(**sub) if sub else lhs_r
        try:
            axes, vals = oracle.denote(funsor.reinterpret(got))
        except oracle.Declined:
            continue
        vals = np.asarray(vals, dtype=np.float64)
        stats["reference_marginals"] = stats.get("reference_marginals", 0) + 1
        if not np.all(np.isfinite(vals)) or np.abs(vals - want).max() > 1e-6 * (1 + abs(want) + np.abs(vals).max()):
            raise Violation(
                "sample-mass",
                "Gaussian sample over %s (factor kind %s, batch element %s): mass %s, closed form of the fitted quadratic %.12g"
                % (sorted(sampled), case.get("sqrt"), dict(zip(bnames, bidx)), vals.tolist(), want),
            )
    stats["randn_calls"] += len(stream0.calls)
    return oracle.digest(Sr)


def _check_mixture(case, stats, stream_seed):
    """Sampling a Gaussian mixture (log-weights + Gaussian, both depending on the
    discrete variable): inputs, and total mass against a dense numpy model."""
    from collections import OrderedDict

    import numpy as np

    import funsor
    from funsor import ops

    from sim import oracle, seams

    g, P, loc, _eta = _mk_gaussian(case)
    sizes = dict(case["batch"])
    wshape = tuple(sizes[n] for n in case["wnames"])
    d = funsor.Tensor(np.array(case["weights"], dtype=np.float64).reshape(wshape), OrderedDict((n, funsor.Bint[sizes[n]]) for n in case["wnames"]))
    m = d + g
    sampled = frozenset(case["sampled"])
    sample_inputs = OrderedDict((n, funsor.Bint[s]) for n, s in case["sample_inputs"])
    stream = seams.RandomStream(stream_seed)
    with seams.random_stream(stream):
        S = m.sample(sampled, sample_inputs)
    stats["rand_calls"] += len([c for c in stream.calls if c[0] == "rand"])
    stats["randn_calls"] += len([c for c in stream.calls if c[0] == "randn"])
    want = set(m.inputs) | set(sample_inputs)
    if set(S.inputs) != want:
        raise Violation("sample-inputs", "mixture sample has inputs %s, expected %s" % (sorted(S.inputs), sorted(want)))
    if S.output != funsor.Real:
        raise Violation("sample-output", "mixture sample has output %s" % (S.output,))
    # dense model of the total mass: logsumexp_i ( d_i + Z_i ),  Z_i = dim/2 log 2pi - 1/2 logdet P_i
    dim = P.shape[-1]
    Z = 0.5 * dim * math.log(2 * math.pi) - 0.5 * np.linalg.slogdet(P)[1]  # batch shape, in case["batch"] order
    bnames = [n for n, _ in case["batch"]]
    idx = tuple(slice(None) if n in case["wnames"] else None for n in bnames)
    perm = [case["wnames"].index(n) for n in bnames if n in case["wnames"]]
    dd = np.array(case["weights"], dtype=np.float64).reshape(wshape).transpose(perm)[idx]
    tot = dd + Z
    ax = bnames.index("i")
    mx = tot.max(ax, keepdims=True)
    mass = (mx + np.log(np.exp(tot - mx).sum(ax, keepdims=True))).squeeze(ax)
    rest = [n for n in bnames if n != "i"]
    ref = funsor.Tensor(mass, OrderedDict((n, funsor.Bint[sizes[n]]) for n in rest))
    allvars = frozenset(["i"] + [n for n, _ in case["reals"]])
    lhs = funsor.reinterpret(S.reduce(ops.logaddexp, allvars))
    try:
        msg = oracle.compare(ref, lhs, rtol=1e-6, atol=1e-8)
    except oracle.Declined:
        stats["declined"] += 1
        msg = None
    if msg is not None:
        raise Violation("sample-mass", "sampling %s of a Gaussian mixture changed its total mass (dense model vs sample reduced over all mixture variables): %s" % (sorted(sampled), msg))
    stats["identities"] += 1
    rhs = funsor.reinterpret(m.reduce(ops.logaddexp, allvars))
    try:
        msg = oracle.compare(ref, rhs, rtol=1e-6, atol=1e-8)
    except oracle.Declined:
        msg = None
    if msg is not None:
        raise Violation("mixture-mass-model", "the mixture's own total mass differs from the dense model: " + msg)
    stats["identities"] += 1
    stats["mixtures"] = stats.get("mixtures", 0) + 1
    return oracle.digest(S)


def _check_delta(case, stats):
    import numpy as np

    import funsor
    from funsor import ops
    from funsor.delta import Delta
    from funsor.integrate import Integrate

    from sim import oracle

    from collections import OrderedDict

    bnames = ["a", "b"][: case["batch"]]
    binputs = OrderedDict((n, funsor.Bint[2 + i]) for i, n in enumerate(bnames))
    bshape = tuple(d.size for d in binputs.values())
    base = case["value"]
    intpoint = case["point"] == "int"
    if case["point"] == "number":
        x = funsor.Number(base)
        bshape_x = ()
    elif case["point"] == "int":
        x = funsor.Tensor(np.arange(int(np.prod(bshape) or 1)).reshape(bshape) % 3, binputs, 3)
    elif case["point"] == "tensor":
        x = funsor.Tensor(base + 0.1 * np.arange(int(np.prod(bshape) or 1)).reshape(bshape), binputs)
    elif case["point"] in ("vector", "matrix"):
        eshape = (3,) if case["point"] == "vector" else (2, 2)
        n = int(np.prod(bshape) or 1) * int(np.prod(eshape))
        x = funsor.Tensor(base + 0.1 * np.arange(n).reshape(bshape + eshape), binputs)
    else:  # lazy expression of a free real variable
        x = funsor.Variable("w", funsor.Real)
    ld = funsor.Number(case["ld"]) if case["batch"] == 0 else funsor.Tensor(case["ld"] + 0.0 * np.arange(int(np.prod(bshape))).reshape(bshape), binputs)
    d = Delta("v", x, ld)
    vector = case["point"] in ("vector", "matrix")
    dom = funsor.Bint[3] if intpoint else (x.output if vector else funsor.Real)
    v = funsor.Variable("v", dom)
    if intpoint:
        gfun = funsor.Tensor(np.array([0.3, -1.2, 2.5]), OrderedDict(v=funsor.Bint[3]))
    elif vector:
        gfun = (v * v).sum() + 0.5 * v.sum()
    elif case["g"] == "poly":
        gfun = v * v + 0.5 * v
    elif case["g"] == "exp":
        gfun = v.exp() - 1.0
    else:
        gfun = v * funsor.Tensor(np.array([1.0, -2.0]), OrderedDict(q=funsor.Bint[2]))
    wsub = {"w": funsor.Number(0.25)} if case["point"] == "lazy" else {}
    # (f1) Delta(v, x, ld)(v = x) == ld
    try:
        at = d(v=x)
        msg = oracle.compare(ld, funsor.reinterpret(at(**wsub) if wsub else at))
    except (oracle.Declined, ValueError, NotImplementedError, AssertionError, TypeError):
        stats["declined"] += 1
        msg = None
    if msg is not None:
        raise Violation("delta-at-point", "Delta(v, x, ld)(v=x) is not ld: " + msg)
    # (f2) elsewhere -inf
    other = x + (1 if intpoint else 0.5)
    if intpoint:
        other = funsor.Tensor((np.asarray(x.data) + 1) % 3, x.inputs, 3)
    if vector:
        # away from the point in ONE coordinate only (a partially coinciding value)
        pert = np.array(x.data, dtype=np.float64)
        pert[..., -1] += 0.5
        other = funsor.Tensor(pert, x.inputs)
    try:
        off = d(v=other)
        off = off(**wsub) if wsub else off
        axes, vals = oracle.denote(funsor.reinterpret(off))
    except (oracle.Declined, ValueError, NotImplementedError, AssertionError, TypeError):
        stats["declined"] += 1
        vals = None
    if vals is not None and not np.all(np.asarray(vals) == -np.inf):
        raise Violation("delta-off-point", "Delta evaluated away from its point is not -inf: %r" % (np.asarray(vals).ravel()[:4].tolist(),))
    # (f3), (f4) are promised for unit-mass Deltas only (log_density 0): funsor's
    # reduction deliberately integrates a weighted Delta to 1, so nothing is
    # claimed about ld != 0 there.
    if case["ld"] != 0.0:
        stats["identities"] += 2
        return
    # (f3) (Delta + g).reduce(logaddexp, v) == g(v=x)
    try:
        lhs = (d + gfun).reduce(ops.logaddexp, "v")
        rhs = gfun(v=x) + ld
        if wsub:
            lhs, rhs = lhs(**wsub), rhs(**wsub)
        msg = oracle.compare(funsor.reinterpret(rhs), funsor.reinterpret(lhs))
    except (oracle.Declined, ValueError, NotImplementedError, AssertionError, TypeError):
        stats["declined"] += 1
        msg = None
    if msg is not None:
        raise Violation("delta-reduce", "(Delta + g).reduce(logaddexp, v) differs from g(v=x) + ld: " + msg)
    # (f4) Integrate(Delta, g, v) == exp(ld) * g(v=x)
    try:
        lhs = Integrate(d, gfun, frozenset([v]))
        rhs = gfun(v=x) * ld.exp()
        if wsub:
            lhs, rhs = lhs(**wsub), rhs(**wsub)
        msg = oracle.compare(funsor.reinterpret(rhs), funsor.reinterpret(lhs))
    except (oracle.Declined, ValueError, NotImplementedError, AssertionError, TypeError):
        stats["declined"] += 1
        msg = None
    if msg is not None:
        raise Violation("delta-integrate", "Integrate(Delta, g, v) differs from exp(ld) * g(v=x): " + msg)
    stats["identities"] += 4
    # (f7) subtraction with the Delta on the left: (Delta - g)(v = x) == ld - g(v = x), and reduced over v the same
    if not intpoint:
        try:
            diff = d - gfun
            lhs1 = diff(v=x)
            lhs2 = diff.reduce(ops.logaddexp, "v")
            rhs = ld - gfun(v=x)
            if wsub:
                lhs1, lhs2, rhs = lhs1(**wsub), lhs2(**wsub), rhs(**wsub)
            rhs = funsor.reinterpret(rhs)
            msg = oracle.compare(rhs, funsor.reinterpret(lhs1)) or oracle.compare(rhs, funsor.reinterpret(lhs2))
        except (oracle.Declined, ValueError, NotImplementedError, AssertionError, TypeError):
            stats["declined"] += 1
            msg = None
        if msg is not None:
            raise Violation("delta-subtract", "(Delta - g) at the point / reduced over the Delta's variable differs from ld - g(v=x): " + msg)
        stats["identities"] += 2
    # (f8) a Delta on the left of a Delta whose point depends on the first one's variable:
    #      reducing over v evaluates the second Delta's point at v = x
    if not intpoint and not vector:
        try:
            uvar = funsor.Variable("u", funsor.Real)
            dep = Delta("u", v * 2.0 + 1.0, funsor.Number(0.0))
            both = d + dep
            red = both.reduce(ops.logaddexp, "v")
            if "v" in red.inputs:
                raise Violation("delta-reduce", "(Delta(v, x) + Delta(u, 2v+1)).reduce(logaddexp, v) still has the input v: %s" % (sorted(red.inputs),))
            at = x * 2.0 + 1.0
            lhs_at, lhs_off = red(u=at), red(u=at + 0.5)
            if wsub:
                lhs_at, lhs_off = lhs_at(**wsub), lhs_off(**wsub)
            msg = oracle.compare(funsor.reinterpret(ld if not wsub else ld), funsor.reinterpret(lhs_at))
            if msg is None:
                axes, vals = oracle.denote(funsor.reinterpret(lhs_off))
                if not np.all(np.asarray(vals) == -np.inf):
                    msg = "away from 2x+1 the reduced term is %r, not -inf" % (np.asarray(vals).ravel()[:4].tolist(),)
        except (oracle.Declined, ValueError, NotImplementedError, AssertionError, TypeError):
            stats["declined"] += 1
            msg = None
        if msg is not None:
            raise Violation("delta-reduce", "(Delta(v, x) + Delta(u, 2v+1)).reduce(logaddexp, v) is not a point mass at u = 2x+1: " + msg)
        stats["identities"] += 1
    # (f5), (f6): a joint Delta over two names, reduced / integrated over ONE of them: the other
    # name stays a point mass (value at its point, nothing elsewhere)
    if case.get("joint") and not intpoint and not vector:
        pu = funsor.Tensor(np.asarray(0.7 - 0.2 * np.arange(int(np.prod(bshape) or 1)).reshape(bshape)), binputs) if case["joint"] == "tensor" else funsor.Number(0.7)
        u = funsor.Variable("u", funsor.Real)
        joint = d + Delta("u", pu, funsor.Number(0.0))
        h = gfun * (u + 2.0)
        at_u, off_u = pu, pu + 0.5
        try:
            res = Integrate(joint, h, frozenset([v]))
            if "u" not in res.inputs:
                raise Violation("delta-integrate", "Integrate(Delta over v and u, h(v, u), {v}) lost the input u: inputs %s" % (sorted(res.inputs),))
            lhs_at, lhs_off = res(u=at_u), res(u=off_u)
            rhs_at = h(v=x, u=at_u)
            if wsub:
                lhs_at, lhs_off, rhs_at = lhs_at(**wsub), lhs_off(**wsub), rhs_at(**wsub)
            msg = oracle.compare(funsor.reinterpret(rhs_at), funsor.reinterpret(lhs_at))
            if msg is None:
                axes, vals = oracle.denote(funsor.reinterpret(lhs_off))
                if not np.all(np.asarray(vals) == 0.0):
                    msg = "away from the remaining point u the integral is %r, not 0" % (np.asarray(vals).ravel()[:4].tolist(),)
        except (oracle.Declined, ValueError, NotImplementedError, AssertionError, TypeError):
            stats["declined"] += 1
            msg = None
        if msg is not None:
            raise Violation("delta-integrate", "Integrate(joint Delta over v and u, h, {v}): " + msg)
        try:
            res = (joint + h).reduce(ops.logaddexp, "v")
            if "u" not in res.inputs:
                raise Violation("delta-reduce", "(joint Delta + h).reduce(logaddexp, v) lost the input u: inputs %s" % (sorted(res.inputs),))
            lhs_at, lhs_off = res(u=at_u), res(u=off_u)
            rhs_at = h(v=x, u=at_u)
            if wsub:
                lhs_at, lhs_off, rhs_at = lhs_at(**wsub), lhs_off(**wsub), rhs_at(**wsub)
            msg = oracle.compare(funsor.reinterpret(rhs_at), funsor.reinterpret(lhs_at))
            if msg is None:
                axes, vals = oracle.denote(funsor.reinterpret(lhs_off))
                if not np.all(np.asarray(vals) == -np.inf):
                    msg = "away from the remaining point u the reduced term is %r, not -inf" % (np.asarray(vals).ravel()[:4].tolist(),)
        except (oracle.Declined, ValueError, NotImplementedError, AssertionError, TypeError):
            stats["declined"] += 1
            msg = None
        if msg is not None:
            raise Violation("delta-reduce", "(joint Delta over v and u + h).reduce(logaddexp, v): " + msg)
        stats["identities"] += 2
        stats["joint_deltas"] = stats.get("joint_deltas", 0) + 1


def _prefix(r):
    """Unrelated work / events before the sampler call (determinism oracle)."""
    import gc

    import numpy as np

    import funsor
    from funsor import ops

    from sim import seams

    from . import c03

    evs = []
    for _ in range(r.randint(1, 3)):
        c = r.choice(["gc", "gensym", "cache", "work"])
        evs.append(c)
        if c == "gc":
            gc.collect()
        elif c == "gensym":
            seams.set_gensym(seams.get_gensym() + r.choice([1, 999, 10**6]))
        elif c == "cache":
            c03.drop_dispatch_caches()
        else:
            from collections import OrderedDict

            t = funsor.Tensor(np.arange(6.0).reshape(2, 3), OrderedDict(u=funsor.Bint[2], w=funsor.Bint[3]))
            (t * t).reduce(ops.add, "u")
            with funsor.interpretations.lazy:
                (t + 1).reduce(ops.logaddexp, "w")
    return evs


def _run_case(args):
    import numpy as np

    import funsor

    from sim import oracle, seams

    case, mode, seed = args
    r = W.rng(seed, "case", case["cid"], mode)
    stats = {"identities": 0, "points_checked": 0, "declined": 0, "edge_draws": {}, "rand_calls": 0, "randn_calls": 0, "prefix": []}
    digest = None
    violation = None
    try:
        if mode.startswith("prefix"):
            stats["prefix"] = _prefix(r)
        if case["kind"] == "tensor":
            t = _mk_tensor(case)
            from collections import OrderedDict

            si = OrderedDict((n, funsor.Bint[s]) for n, s in case["sample_inputs"])
            if mode == "edge_enum":
                # complete enumeration: every boundary value of every row's CDF, for
                # every draw position in turn (the other draws stay pseudo-random)
                n_enum = 0
                s_rows, p_rows, _ = _cdf_rows(case)
                bnd = s_rows.ndim - 1
                for pos in np.ndindex(*([sz for _, sz in case["sample_inputs"]] + list(s_rows.shape[:-1]))):
                    row = s_rows[pos[len(case["sample_inputs"]) :]] if bnd else s_rows
                    values = {0.0, 5e-324, 1.0 - 2.0**-53}
                    for b in row:
                        for v in (float(b), float(np.nextafter(b, 2.0)), float(np.nextafter(b, -1.0))):
                            if 0.0 <= v < 1.0:
                                values.add(v)
                    for v in sorted(values):
                        stream = seams.RandomStream(case["cid"] * 7 + 1)

                        def edit(kind, out, ncall, pos=pos, v=v):
                            if kind != "rand":
                                return out
                            out = np.array(out, dtype=np.float64)
                            out[pos] = v
                            return out

                        stream.edit = edit
                        with seams.random_stream(stream):
                            S = t.sample(frozenset(case["sampled"]), si)
                        _check_tensor_sample(case, t, S, stats)
                        n_enum += 1
                stats["edge_draws"]["enumerated"] = n_enum
                return {"violation": None, "stats": stats, "digest": None}
            stream = seams.RandomStream(case["cid"] * 7 + 1)
            if mode == "edge":
                stream.edit = _edge_editor(case, r, stats)
            with seams.random_stream(stream):
                S = t.sample(frozenset(case["sampled"]), si)
            stats["rand_calls"] += len(stream.calls)
            _check_tensor_sample(case, t, S, stats)
            digest = oracle.digest(S)
            if mode != "edge":
                _check_montecarlo_integrate(case, t, S, si, stats)
                _check_integrate_against_sample(case, S, si, stats)
        elif case["kind"] == "gaussian":
            digest = _check_gaussian(case, stats, case["cid"] * 7 + 2)
        elif case["kind"] == "mixture":
            digest = _check_mixture(case, stats, case["cid"] * 7 + 3)
        else:
            _check_delta(case, stats)
            digest = "delta"
    except Violation as v:
        violation = {"invariant": v.invariant, "message": v.message}
    except (AssertionError, NotImplementedError, ValueError) as e:
        # funsor declined by raising (allowed); recorded, with the message, in the evidence
        import traceback

        tb = traceback.extract_tb(e.__traceback__)
        inside = [f for f in tb if "/funsor/" in f.filename]
        if not inside or inside[-1] is not tb[-1]:
            raise  # raised in harness code: a harness error
        stats["declined"] += 1
        stats["declined_by_error"] = "%s at %s:%d" % (type(e).__name__, tb[-1].filename.split("/funsor/")[-1], tb[-1].lineno)
    return {"violation": violation, "stats": stats, "digest": digest}


def run_cases(payload):
    from sim.iso import fork_call

    tot = {"runs": 0, "identities": 0, "points_checked": 0, "declined": 0, "rand_calls": 0, "randn_calls": 0, "fork_errors": 0, "invalid_cases": 0, "edge_runs": 0, "determinism_checks": 0}
    edge = {}
    prefixes = {}
    violations = []
    digests = {}
    sample = None
    errs = []
    declined_errors = {}
    for case in payload["cases"]:
        if case["kind"] == "tensor" and not _valid_tensor_case(case):
            tot["invalid_cases"] += 1
            continue
        modes = ["plain", "prefix"]
        if case["kind"] == "tensor":
            modes += ["edge", "edge2"] if payload.get("tier") != "thorough" else ["edge", "edge2", "edge3", "edge4"]
            ncells = len(case["data"])
            ndraws = 1
            for _, sz in case["sample_inputs"]:
                ndraws *= sz
            if ncells <= (6 if payload.get("tier") != "thorough" else 16) and ndraws <= 3:
                modes.append("edge_enum")
        base_digest = None
        for mode in payload.get("modes", modes):
            m = mode if mode == "edge_enum" else ("edge" if mode.startswith("edge") else mode)
            res = fork_call(_run_case, ((case, m, "%s/%s" % (payload["seed"], mode)),), timeout=120)
            tot["runs"] += 1
            if res.get("status") != "ok":
                tot["fork_errors"] += 1
                errs.append(res.get("err", str(res))[-800:])
                continue
            rr = res["res"]
            st = rr["stats"]
            for k in ("identities", "points_checked", "declined", "rand_calls", "randn_calls"):
                tot[k] += st[k]
            tot["montecarlo_integrals"] = tot.get("montecarlo_integrals", 0) + st.get("montecarlo_integrals", 0)
            tot["mixtures"] = tot.get("mixtures", 0) + st.get("mixtures", 0)
            tot["joint_deltas"] = tot.get("joint_deltas", 0) + st.get("joint_deltas", 0)
            tot["integrals_against_samples"] = tot.get("integrals_against_samples", 0) + st.get("integrals_against_samples", 0)
            tot["reference_marginals"] = tot.get("reference_marginals", 0) + st.get("reference_marginals", 0)
            tot["reference_silent"] = tot.get("reference_silent", 0) + st.get("reference_silent", 0)
            for k, v in st["edge_draws"].items():
                edge[k] = edge.get(k, 0) + v
            for p in st["prefix"]:
                prefixes[p] = prefixes.get(p, 0) + 1
            if st.get("declined_by_error"):
                declined_errors[st["declined_by_error"]] = declined_errors.get(st["declined_by_error"], 0) + 1
            if mode.startswith("edge"):
                tot["edge_runs"] += 1
            if rr["violation"]:
                v = rr["violation"]
                v["case"] = case
                v["mode"] = mode
                v["fingerprint"] = v["invariant"] + ("|edge" if mode.startswith("edge") else "")
                violations.append(v)
                break
            if mode == "plain":
                base_digest = rr["digest"]
                digests[str(case["cid"])] = rr["digest"]
            elif mode == "prefix":
                tot["determinism_checks"] += 1
                if rr["digest"] != base_digest:
                    violations.append(
                        {
                            "invariant": "sample-not-deterministic",
                            "message": "the same random stream gave a different sample after the prefix %s (digest %s vs %s)" % (st["prefix"], rr["digest"], base_digest),
                            "case": case,
                            "mode": mode,
                            "fingerprint": "sample-not-deterministic",
                        }
                    )
                    break
        if violations:
            break
        if sample is None:
            sample = {k: v for k, v in case.items() if k not in ("mats", "locs")}
    if errs and tot["fork_errors"] > 0.5 * max(1, tot["runs"]):
        raise RuntimeError("most case runs failed: " + errs[0])
    return {"violations": violations[:1], "stats": dict(tot, edge_draws=edge, prefixes=prefixes, declined_errors=declined_errors), "digests": digests, "sample": sample, "errors": errs[:2]}


def digest_replay(payload):
    """Replay form of a cross-world disagreement: same case, same stream, in this
    world; compare with the digest recorded in the other world."""
    res = run_cases(payload)
    exp = payload["expect"]
    got = res["digests"].get(str(exp["cid"]))
    violations = list(res["violations"])
    if got is not None and got != exp["digest"]:
        violations.append(
            {
                "invariant": "sample-differs-across-hash-worlds",
                "message": "case %s: digest %s in this world, %s in world %s" % (exp["cid"], got, exp["digest"], exp["world"].get("index")),
                "fingerprint": "sample-differs-across-hash-worlds",
            }
        )
    return {"violations": violations, "stats": res["stats"], "digests": {}, "sample": None, "errors": []}


###############################################################################
# runner side


def cross_check(jobs, results):
    """Same case, same stream, other hash world: identical digest."""
    by_group = {}
    for job, res in zip(jobs, results):
        if not res or res.get("status") != "ok":
            continue
        by_group.setdefault(job["payload"]["group"], []).append((job, res["res"]))
    out = []
    for group, members in sorted(by_group.items()):
        if len(members) < 2:
            continue
        (j0, r0), (j1, r1) = members[0], members[1]
        for cid, dg in r0["digests"].items():
            other = r1["digests"].get(cid)
            if other is None or dg is None:
                continue
            CROSS["compared"] += 1
            if other != dg:
                case = [c for c in j0["payload"]["cases"] if str(c["cid"]) == cid][0]
                out.append(
                    (
                        dict(j1, fn="digest_replay", payload=dict(j1["payload"], cases=[case], modes=["plain"], expect={"cid": cid, "digest": dg, "world": j0["world"]})),
                        {
                            "invariant": "sample-differs-across-hash-worlds",
                            "message": "case %s: the same random stream gave different samples in hash worlds %s and %s" % (cid, j0["world"]["index"], j1["world"]["index"]),
                            "fingerprint": "sample-differs-across-hash-worlds",
                        },
                    )
                )
                break
    return out


CROSS = {"compared": 0}


def summarize(jobs, results, tier):
    tot = {}
    edge = {}
    prefixes = {}
    samples = []
    errors = []
    declined_errors = {}
    for job, res in zip(jobs, results):
        if not res or res.get("status") != "ok":
            continue
        st = res["res"]["stats"]
        for k, v in st.items():
            if k == "edge_draws":
                for a, b in v.items():
                    edge[a] = edge.get(a, 0) + b
            elif k == "prefixes":
                for a, b in v.items():
                    prefixes[a] = prefixes.get(a, 0) + b
            elif k == "declined_errors":
                for a, b in v.items():
                    declined_errors[a] = declined_errors.get(a, 0) + b
            else:
                tot[k] = tot.get(k, 0) + v
        if res["res"].get("sample") and len(samples) < 3:
            samples.append(res["res"]["sample"])
        errors.extend(res["res"].get("errors", []))
    return {
        "evaluations": tot.get("runs", 0),
        "distinct_nontrivial": tot.get("edge_runs", 0) + tot.get("determinism_checks", 0),
        "rule": "one evaluation = one sampler/Delta case executed in a fresh fork under one stream mode: plain seeded stream, the same "
        "stream after a prefix of unrelated events (determinism), or edge streams in which ~70% of the uniform draws are replaced by "
        "boundary values of the row's own CDF. Cases: discrete tensors over 1-3 inputs of sizes 1-4 with -inf and near-underflow cells, "
        "random subsets of sampled variables, 0-2 sample inputs; full-rank Gaussians with 0-2 batch inputs, subsets of real inputs, eager "
        "or reparametrised noise (noise 0 and unit vectors are injected); Deltas at numbers, batched tensors, integers and lazy points. "
        "Non-trivial = runs with injected edge draws + determinism re-runs (each a distinct (case, mode)).",
        "samples": samples or [{"note": "none"}],
        "exhaustive": False,
        "identities_checked": tot.get("identities", 0),
        "montecarlo_integrate_consistency_checks": tot.get("montecarlo_integrals", 0),
        "gaussian_mixture_samples_checked": tot.get("mixtures", 0),
        "joint_delta_cases_checked": tot.get("joint_deltas", 0),
        "integrals_against_samples_checked_densely": tot.get("integrals_against_samples", 0),
        "gaussian_sample_masses_compared_with_closed_form": tot.get("reference_marginals", 0),
        "gaussian_sample_masses_where_closed_form_is_silent": tot.get("reference_silent", 0),
        "sample_points_checked_in_support": tot.get("points_checked", 0),
        "rand_calls_served": tot.get("rand_calls", 0),
        "randn_calls_served": tot.get("randn_calls", 0),
        "edge_draws_injected": edge,
        "determinism_prefix_events": prefixes,
        "determinism_checks": tot.get("determinism_checks", 0),
        "cross_world_digest_comparisons": CROSS["compared"],
        "declined": tot.get("declined", 0),
        "declined_because_funsor_raised": declined_errors,
        "invalid_cases_skipped": tot.get("invalid_cases", 0),
        "case_runs_raising": tot.get("fork_errors", 0),
        "case_run_error_samples": errors[:3],
        "components": {
            "real": ["funsor sampler code (Tensor._sample, Gaussian._sample, Delta, Integrate)", "numpy linear algebra"],
            "stubbed": ["numpy.random.rand / randn (per-run deterministic stream with injected boundary values)", "object hashes (seeded hook)"],
        },
    }


def minimize(job, violation, test):
    case = violation.get("case")
    if not case:
        return job, violation
    inv = violation["invariant"]
    mode = violation.get("mode", "plain")

    def attempt(c):
        j = dict(job, payload=dict(job["payload"], cases=[c], modes=[m for m in ["plain", mode] if m] if mode != "plain" else ["plain"]))
        for v in test(j):
            if v.get("invariant") == inv:
                return j, v
        return None

    best = attempt(case)
    if best is None:
        return job, violation
    if case["kind"] == "tensor":
        # drop sample inputs, then shrink data values towards simple ones
        cand = dict(case, sample_inputs=[])
        got = attempt(cand)
        if got:
            case, best = cand, got
        for i in range(len(case["data"])):
            if case["data"][i] not in (None, 0.0):
                cand = dict(case, data=case["data"][:i] + [0.0] + case["data"][i + 1 :])
                got = attempt(cand)
                if got:
                    case, best = cand, got
    return best
