"""C17 - interpretation contexts nest and unwind like a stack.

Engine `ctxstack`: an explicit stack model is run alongside the real
interpretation stack while a well-nested tree of context blocks executes;
exceptions are injected at every body position and at every funsor-internal
call of every work step / context entry.  DESIGN.md section 6 (C17)."""

import itertools
import json

from sim import world as W

PROPERTY = "C17"
LEVEL = "fault_enumeration"
BUDGET = {"quick": 300, "thorough": 3000}
ASSUMPTIONS = [
    "only well-nested enter/exit sequences are generated (with-blocks and decorators)",
    "exceptions are injected at funsor-internal Python function entries and between body statements, "
    "never inside Interpretation.__exit__/pop_interpretation and never between two bytecodes",
    "numpy backend; sys.monitoring PY_START is the injection seam (no repository hook)",
]

TOTALS = ["eager", "lazy", "reflect", "normalize", "sequential", "moment_matching"]
ALPHABET = TOTALS + ["memoize", "memoize_shared", "Memoize_lazy", "Memoize_user", "user", "user2", "tape", "tape_shared", "montecarlo", "montecarlo_shared", "argmax_approximate", "mean_approximate"]
QUICK_ALPHABET = ["eager", "lazy", "normalize", "sequential", "memoize", "memoize_shared", "Memoize_lazy", "Memoize_user", "user", "tape", "tape_shared", "montecarlo_shared", "reflect"]
WORKS = ["recipes", "forward_backward", "approximate", "name_independence", "subs", "reduce", "optimizer", "reinterpret", "adjoint", "einsum", "inner_memoize", "sample", "lambda", "user_term", "mc_integrate", "affine", "compile", "sum_product", "gaussian"]
EXC_TYPES = ["MemoryError", "RecursionError", "FloatingPointError", "NotImplementedError", "ValueError", "KeyboardInterrupt", "CancelledError"]

###############################################################################
# planning (runner side, no funsor needed)


def block(kind, body, mode="with", catch=False):
    return {"k": kind, "mode": mode, "catch": catch, "body": body}


def _std_body(children, r=None, works=None):
    """probe, work, children..., work, probe"""
    w1 = {"t": "work", "w": (works or WORKS)[0] if r is None else r.choice(works or WORKS)}
    body = [{"t": "probe"}, w1]
    for c in children:
        body.append(c)
        body.append({"t": "probe"})
    return body


def enum_shapes(n):
    """All ordered forests with n nodes, as nested lists."""
    if n == 0:
        return [[]]
    out = []
    for k in range(1, n + 1):  # size of first tree
        for first_children in enum_shapes(k - 1):
            for rest in enum_shapes(n - k):
                out.append([first_children] + rest)
    return out


def label_forest(forest, kinds, r, works):
    it = iter(kinds)

    def lab(children):
        kind = next(it)
        kids = [lab(c) for c in children]
        return block(kind, _std_body(kids, r, works), mode=r.choice(["with", "with", "deco", "helper"]), catch=r.random() < 0.4)

    return [lab(t) for t in forest]


def random_tree(r, max_depth, max_blocks, alphabet):
    count = [0]

    def mk(depth):
        count[0] += 1
        body = []
        nitems = r.randint(1, 4)
        for _ in range(nitems):
            x = r.random()
            if x < 0.35 and depth < max_depth and count[0] < max_blocks:
                body.append(mk(depth + 1))
            elif x < 0.7:
                body.append({"t": "work", "w": r.choice(WORKS)})
            else:
                body.append({"t": "probe"})
        if not body or body[-1].get("t") != "probe":
            body.append({"t": "probe"})
        return block(r.choice(alphabet), body, mode=r.choice(["with", "with", "deco", "helper"]), catch=r.random() < 0.4)

    return [mk(1) for _ in range(r.randint(1, 2))]


def plan(seed, tier):
    r = W.rng(seed, "c17", "plan")
    nworlds = 4 if tier == "quick" else 8
    worlds = [W.make_world(seed, i) for i in range(nworlds)]
    # make sure both reinterpreters and typecheck on/off occur
    for i, w in enumerate(worlds):
        w["tco"] = i % 2
        w["typecheck"] = (i // 2) % 2
    jobs = []
    alphabet = QUICK_ALPHABET if tier == "quick" else ALPHABET
    exhaustive_blocks = 2 if tier == "quick" else 3
    forests = []
    for n in range(1, exhaustive_blocks + 1):
        for shape in enum_shapes(n):
            for kinds in itertools.product(alphabet, repeat=n):
                forests.append((shape, kinds))
    r.shuffle(forests)
    chunk = 6 if tier == "quick" else 12
    cap = 40 if tier == "quick" else 100
    sample = 15 if tier == "quick" else 60
    rpt = 160 if tier == "quick" else 220
    for ci in range(0, len(forests), chunk):
        rr = W.rng(seed, "c17", "label", ci)
        trees = []
        for shape, kinds in forests[ci : ci + chunk]:
            works = [rr.choice(WORKS)]
            trees.append(label_forest(shape, kinds, rr, works))
        jobs.append(
            {
                "world": worlds[(ci // chunk) % nworlds],
                "fn": "run_batch",
                "payload": {"trees": trees, "cap": cap, "sample": sample, "seed": "%s/%d" % (seed, ci), "exhaustive_part": True, "runs_per_tree": rpt, "time_limit": 700},
                "timeout": 900,
            }
        )
    nrandom = 200 if tier == "quick" else 6000
    max_depth = 5 if tier == "quick" else 6
    for ci in range(0, nrandom, chunk):
        rr = W.rng(seed, "c17", "random", ci)
        trees = [random_tree(rr, max_depth, 9, ALPHABET) for _ in range(chunk)]
        jobs.append(
            {
                "world": worlds[(ci // chunk) % nworlds],
                "fn": "run_batch",
                "payload": {"trees": trees, "cap": cap // 2, "sample": sample, "seed": "%s/r%d" % (seed, ci), "exhaustive_part": False, "runs_per_tree": rpt // 2, "time_limit": 700},
                "timeout": 900,
            }
        )
    jobs.reverse()  # the random-tree jobs are the heaviest: start them first
    return jobs


###############################################################################
# child side


class Violation(Exception):
    def __init__(self, invariant, message):
        super().__init__(message)
        self.invariant = invariant
        self.message = message


class _Env:
    """Per-child state: contexts, probe material, model."""

    def __init__(self):
        import numpy as np

        import funsor
        from funsor import ops
        from funsor.interpretations import DispatchedInterpretation
        from funsor.terms import Unary, Variable

        from sim import seams

        self.np = np
        self.funsor = funsor
        self.seams = seams
        self.inj = seams.CallInjector()
        self.inj.install()
        self.base_stack = seams.stack_snapshot()
        self.shared_cache = {}
        self.shared_tape = None
        self.shared_mc = None
        self.counter = 0
        user = DispatchedInterpretation("user")
        user2 = DispatchedInterpretation("user2")
        marker = Variable("user_marker", funsor.Real)
        marker2 = Variable("user2_marker", funsor.Real)

        @user.register(Unary, ops.NegOp, Variable)
        def user_neg(op, arg):
            return marker

        @user2.register(Unary, ops.ExpOp, Variable)
        def user2_exp(op, arg):
            return marker2

        self.user, self.user2, self.marker, self.marker2 = user, user2, marker, marker2
        # two more user interpretations with identical rules that differ in their name only
        # (one keeps DispatchedInterpretation's default name); the rule declines and counts
        from funsor.cnf import Contraction
        from funsor.tensor import Tensor

        self.consulted = {}
        self.twins = []
        for args in (("user_named",), ()):
            twin = DispatchedInterpretation(*args)
            self.consulted[id(twin)] = 0

            @twin.register(Contraction, ops.AssociativeOp, ops.AssociativeOp, frozenset, Tensor, Tensor)
            def twin_rule(red_op, bin_op, reduced_vars, a, b, _twin=twin):
                self.consulted[id(_twin)] += 1
                return None

            self.twins.append(twin)

        @funsor.factory.make_funsor
        def UserTerm(x: funsor.Funsor) -> funsor.factory.Fresh[lambda x: x]:
            return None

        self.UserTerm = UserTerm

        @user.register(UserTerm, funsor.Funsor)
        def user_term_rule(x):
            return marker

        self.stats = {
            "runs": 0,
            "faults_fired": {},
            "fault_sites": set(),
            "enter_failures": 0,
            "unwound_blocks": 0,
            "max_depth": 0,
            "probes": 0,
            "invariant_checks": 0,
            "work_errors": 0,
            "work_ok": 0,
        }

    # -- contexts ----------------------------------------------------------
    def make_cm(self, kind):
        I = self.funsor.interpretations
        if kind in TOTALS:
            return getattr(I, kind)
        if kind == "memoize":
            return I.memoize()
        if kind == "memoize_shared":
            return I.memoize(self.shared_cache)
        if kind == "Memoize_lazy":
            return I.Memoize(I.lazy)
        if kind == "Memoize_user":
            return I.Memoize(self.user)  # Memoize constructed directly around a partial interpretation
        if kind == "user":
            return self.user
        if kind == "user2":
            return self.user2
        if kind == "tape":
            return self.funsor.adjoint.AdjointTape()
        if kind == "tape_shared":
            # one tape object used for many blocks (context objects are reusable);
            # never nested inside itself
            if self.shared_tape is None:
                self.shared_tape = self.funsor.adjoint.AdjointTape()
            if any(s is self.shared_tape for top in self.funsor.interpreter._STACK for s in getattr(top, "subinterpretations", ())):
                return self.funsor.adjoint.AdjointTape()
            return self.shared_tape
        if kind in ("argmax_approximate", "mean_approximate"):
            return getattr(self.funsor.approximations, kind)  # library partial interpretations
        if kind == "montecarlo":
            return self.funsor.montecarlo.MonteCarlo()
        if kind == "montecarlo_shared":
            if self.shared_mc is None:
                self.shared_mc = self.funsor.montecarlo.MonteCarlo()
            return self.shared_mc
        raise KeyError(kind)

    def fresh_tensor(self, names=("i",), sizes=(3,)):
        np, f = self.np, self.funsor
        self.counter += 1
        from collections import OrderedDict

        shape = tuple(sizes)
        data = np.arange(1.0, 1.0 + int(np.prod(shape))).reshape(shape) * 0.25 + self.counter % 7
        return f.Tensor(data, OrderedDict((n, f.Bint[s]) for n, s in zip(names, sizes)))


# sem := ("total", name) | ("memo", sem) | ("tape", sem) | ("chain", (partials...), sem)


def sem_enter(kind, top):
    kind = {"tape_shared": "tape", "montecarlo_shared": "montecarlo", "Memoize_user": "user"}.get(kind, kind)
    if kind in TOTALS:
        return ("total", kind)
    if kind in ("memoize", "memoize_shared"):
        return ("memo", top)
    if kind == "Memoize_lazy":
        return ("memo", ("total", "lazy"))
    if kind == "tape":
        return ("tape", top)
    if top[0] == "chain":
        return ("chain", (kind,) + top[1], top[2])
    return ("chain", (kind,), top)


def base_kind(sem):
    if sem[0] == "total":
        return sem[1]
    if sem[0] in ("memo", "tape"):
        return base_kind(sem[1])
    return base_kind(sem[2])


def reaches(sem, what):
    if sem[0] == "total":
        return False
    if sem[0] == "memo":
        return reaches(sem[1], what)
    if sem[0] == "tape":
        return what == "tape" or reaches(sem[1], what)
    return what in sem[1] or reaches(sem[2], what)


def memo_like(sem):
    if sem[0] == "total":
        return sem[1] in ("lazy", "reflect", "normalize")
    if sem[0] == "memo":
        return True
    if sem[0] == "tape":
        return memo_like(sem[1])
    return memo_like(sem[2])


P1_CLASS = {
    "eager": "Tensor",
    "sequential": "Tensor",
    "moment_matching": "Tensor",
    "lazy": "Binary",
    "reflect": "Binary",
    "normalize": "Contraction",
}


class Run:
    def __init__(self, env, forest, fault):
        self.env = env
        self.forest = forest
        self.fault = fault or {"kind": "none"}
        self.pos = 0  # execution-order item counter
        self.model = []  # list of (sem, live object expected on top, tape or None)
        self.call_counts = {}  # pos -> internal calls (fault-free run)
        self.fired = False
        self.tapes = []

    # -- invariants -------------------------------------------------------
    def top_sem(self):
        return self.model[-1][0] if self.model else ("total", "eager")

    def check_stack(self, where):
        from funsor import interpreter
        from funsor.interpretations import eager, reflect

        env = self.env
        env.stats["invariant_checks"] += 1
        st = interpreter._STACK
        if len(st) != len(self.model) + 2:
            raise Violation(
                "stack-depth",
                "%s: len(_STACK)=%d but model depth+2=%d; stack=%r" % (where, len(st), len(self.model) + 2, st),
            )
        if st[0] is not reflect or st[1] is not eager:
            raise Violation("stack-base", "%s: base of stack is %r" % (where, st[:2]))
        for i, (sem, obj, _, _k) in enumerate(self.model):
            if st[i + 2] is not obj:
                raise Violation(
                    "stack-identity",
                    "%s: _STACK[%d] is %r, expected the object pushed at entry %r" % (where, i + 2, st[i + 2], obj),
                )
        expected_top = self.model[-1][1] if self.model else eager
        if interpreter.get_interpretation() is not expected_top:
            raise Violation(
                "active-interpretation",
                "%s: active interpretation %r is not %r" % (where, interpreter.get_interpretation(), expected_top),
            )

    def check_pushed(self, kind, prev_top, where):
        """Structure of what an enter pushed."""
        from funsor import interpreter
        from funsor.interpretations import Memoize, PrioritizedInterpretation

        env = self.env
        top = interpreter.get_interpretation()
        I = env.funsor.interpretations
        kind = {"tape_shared": "tape", "montecarlo_shared": "montecarlo"}.get(kind, kind)
        if kind in TOTALS:
            ok = top is getattr(I, kind)
        elif kind in ("memoize", "memoize_shared"):
            ok = isinstance(top, Memoize) and top.base_interpretation is prev_top
            if kind == "memoize_shared":
                ok = ok and top.cache is env.shared_cache
        elif kind == "Memoize_lazy":
            ok = isinstance(top, Memoize) and top.base_interpretation is I.lazy
        else:
            ok = isinstance(top, PrioritizedInterpretation)
            if ok:
                subs = top.subinterpretations
                ok = len(subs) == 1 + len(prev_top.subinterpretations) and all(
                    a is b for a, b in zip(subs[1:], prev_top.subinterpretations)
                )
                first = subs[0]
                if kind == "Memoize_user":
                    ok = ok and isinstance(first, Memoize) and first.base_interpretation is env.user
                elif kind == "user":
                    ok = ok and first is env.user
                elif kind == "user2":
                    ok = ok and first is env.user2
                elif kind == "tape":
                    ok = ok and isinstance(first, env.funsor.adjoint.AdjointTape) and first._old_interpretation is prev_top
                elif kind == "montecarlo":
                    ok = ok and isinstance(first, env.funsor.montecarlo.MonteCarlo)
                elif kind in ("argmax_approximate", "mean_approximate"):
                    ok = ok and first is getattr(env.funsor.approximations, kind)
        if not ok:
            raise Violation(
                "layering",
                "%s: entering %s over %r pushed %r (subinterpretations %r)"
                % (where, kind, prev_top, top, getattr(top, "subinterpretations", None)),
            )
        return top

    # -- probes -----------------------------------------------------------
    def probe(self, where):
        env = self.env
        f = env.funsor
        from funsor import ops
        from funsor.terms import Unary, Variable

        env.stats["probes"] += 1
        sem = self.top_sem()
        # P1/P3/P4
        t, u = env.fresh_tensor(), env.fresh_tensor()
        tape = self.innermost_tape()
        n0 = len(tape.tape) if tape is not None else 0
        a = t + u
        n1 = len(tape.tape) if tape is not None else 0
        b = t + u
        got = f.typing.get_origin(type(a)).__name__
        want = P1_CLASS[base_kind(sem)]
        if got != want:
            raise Violation(
                "fingerprint-class",
                "%s: under model context %r, t+u built a %s, expected %s" % (where, sem, got, want),
            )
        if (a is b) != memo_like(sem):
            raise Violation(
                "fingerprint-identity",
                "%s: under model context %r, building t+u twice gave identical=%s, expected %s"
                % (where, sem, a is b, memo_like(sem)),
            )
        if tape is not None and reaches(sem, "tape"):
            if n1 <= n0:
                raise Violation("fingerprint-tape", "%s: innermost tape did not record t+u under %r" % (where, sem))
        # P2: user partial interpretations fall through / fire
        env.counter += 1
        x = Variable("px%d" % env.counter, f.Real)
        neg = Unary(ops.neg, x)
        want_marker = reaches(sem, "user")
        if (neg is env.marker) != want_marker:
            raise Violation(
                "fingerprint-partial",
                "%s: under %r, -x gave %r; user rule expected to fire: %s" % (where, sem, neg, want_marker),
            )
        ex = Unary(ops.exp, x)
        want_marker2 = reaches(sem, "user2")
        if (ex is env.marker2) != want_marker2:
            raise Violation(
                "fingerprint-partial",
                "%s: under %r, exp(x) gave %r; user2 rule expected to fire: %s" % (where, sem, ex, want_marker2),
            )
        ut = env.UserTerm(x)
        if (ut is env.marker) != want_marker:
            raise Violation(
                "fingerprint-partial",
                "%s: under %r, UserTerm(x) gave %r; user rule expected to fire: %s" % (where, sem, ut, want_marker),
            )

    def innermost_tape(self):
        for sem, obj, tape, kind in reversed(self.model):
            if tape is not None:
                return tape
            if sem[0] == "total" or kind == "Memoize_lazy":
                return None
        return None

    # -- work steps -----------------------------------------------------------
    def work(self, name):
        env = self.env
        f = env.funsor
        from funsor import ops

        x = env.fresh_tensor(("i", "j"), (2, 3))
        y = env.fresh_tensor(("j", "k"), (3, 2))
        if name == "subs":
            z = x(i=f.Variable("m", f.Bint[2]))
            z = (x + y)(j=1)
            z = (x * y)(j=f.Tensor(env.np.array([0, 2, 1]), {"l": f.Bint[3]}, 3))
        elif name == "reduce":
            z = (x * y).reduce(ops.add, "j")
            z = (x + y).reduce(ops.logaddexp, frozenset(["i", "k"]))
        elif name == "optimizer":
            with f.interpretations.lazy:
                e = (x * y).reduce(ops.add, "j").reduce(ops.add, "i")
            z = f.optimizer.apply_optimizer(e)
        elif name == "name_independence":
            # two user interpretations with identical rules, differing in name only, must be
            # consulted equally often by the terms library code builds inside their block
            with f.interpretations.lazy:
                e = (x * y).reduce(ops.add, "j").reduce(ops.add, "i")
            xa = env.fresh_tensor(("a", "b"), (2, 3))
            yb = env.fresh_tensor(("b", "c"), (3, 2))
            counts = []
            for twin in env.twins:
                c0 = env.consulted[id(twin)]
                with twin:
                    z = f.optimizer.apply_optimizer(e)
                    z = f.einsum.einsum("ab,bc->ac", xa, yb)
                counts.append(env.consulted[id(twin)] - c0)
            env.stats["twin_consultations"] = env.stats.get("twin_consultations", 0) + counts[0]
            if counts[0] != counts[1]:
                raise Violation(
                    "partial-skipped",
                    "inside apply_optimizer/einsum a user interpretation named %r was consulted %d times, its twin named %r %d times (same rules, same work)"
                    % (env.twins[0].__name__, counts[0], env.twins[1].__name__, counts[1]),
                )
        elif name == "recipes":
            from funsor.recipes import forward_filter_backward_rsample

            g = f.testing.random_gaussian(f.testing.OrderedDict(i=f.Bint[2], gx=f.Real, gy=f.Reals[2]))
            factors = {"gx": g, "w": x(j=0)}
            z = forward_filter_backward_rsample(factors, frozenset(["gx", "gy", "i"]), frozenset(["i"]), f.testing.OrderedDict(p=f.Bint[2]))
        elif name == "forward_backward":
            with f.interpretations.lazy:
                e = (x * y).reduce(ops.add, frozenset(["i", "j", "k"]))
            z = f.adjoint.forward_backward(ops.add, ops.mul, e)
        elif name == "approximate":
            lx = x - x.reduce(ops.logaddexp, "j")
            z = lx.approximate(ops.logaddexp, lx, "j")
            with f.approximations.argmax_approximate:
                z = lx.approximate(ops.logaddexp, lx, "j")
        elif name == "reinterpret":
            with f.interpretations.lazy:
                e = ((x * y).reduce(ops.add, "j") + 1.0)(i=1)
            z = f.reinterpret(e)
        elif name == "adjoint":
            with f.interpretations.lazy:
                e = (x * y).reduce(ops.add, frozenset(["i", "j", "k"]))
            z = f.adjoint.adjoint(ops.add, ops.mul, e)
        elif name == "einsum":
            xa = env.fresh_tensor(("a", "b"), (2, 3))
            yb = env.fresh_tensor(("b", "c"), (3, 2))
            z = f.einsum.einsum("ab,bc->ac", xa, yb)
        elif name == "inner_memoize":
            with f.interpretations.memoize():
                z = (x * y).reduce(ops.add, "j")
                z2 = (x * y).reduce(ops.add, "j")
        elif name == "sample":
            z = x.sample(frozenset(["j"]))
        elif name == "lambda":
            z = f.Lambda(f.Variable("i", f.Bint[2]), x)
            z = z[1]
        elif name == "user_term":
            z = env.UserTerm(x)
            z = -f.Variable("q", f.Real)
        elif name == "affine":
            xv = f.Variable("xa", f.Real)
            z = f.affine.extract_affine(x(j=0) * xv + y(k=1)(j=1))
            z = f.affine.affine_inputs(x * xv)
        elif name == "compile":
            with f.interpretations.lazy:
                e = (f.Variable("xc", f.Reals[3]) * f.Tensor(env.np.arange(3.0))).sum()
            z = f.compiler.compile_funsor(e)
        elif name == "sum_product":
            z = f.sum_product.sum_product(ops.logaddexp, ops.add, [x, y], frozenset(["i", "j", "k"]), frozenset())
        elif name == "gaussian":
            g = f.testing.random_gaussian(f.testing.OrderedDict(i=f.Bint[2], gx=f.Real, gy=f.Reals[2]))
            z = (g + x).reduce(ops.logaddexp, "gx")
            z = g(gx=f.Variable("gz", f.Real) * 2.0)
        elif name == "mc_integrate":
            lm = x - x.reduce(ops.logaddexp, "j")
            z = f.Integrate(lm, y, frozenset([f.Variable("j", f.Bint[3])]))
        else:
            raise KeyError(name)
        return z

    # -- execution --------------------------------------------------------
    def fault_here(self, kind):
        fl = self.fault
        return (not self.fired) and fl["kind"] == kind and fl.get("pos") == self.pos

    def maybe_body_fault(self):
        if self.fault_here("body"):
            self.fired = True
            cls = self.env.seams.INJECTED_TYPES[self.fault.get("exc", "ValueError")]
            self.count_fault("EXC_BODY", "body")
            raise cls("injected in block body at item %d" % self.pos)

    def count_fault(self, kind, site):
        st = self.env.stats
        st["faults_fired"][kind] = st["faults_fired"].get(kind, 0) + 1
        st["fault_sites"].add(site)

    def armed(self, fn):
        """Run fn() with the call injector window open; arm if this item is the
        fault position."""
        inj = self.env.inj
        pos = self.pos
        arm = self.fault_here("call")
        if arm:
            self.fired = True
            inj.arm(self.fault["n"], self.fault.get("exc", "MemoryError"))
        c0 = inj.count
        try:
            with inj.window():
                return fn()
        finally:
            self.call_counts[pos] = inj.count - c0
            if arm:
                if inj.fired is not None:
                    self.count_fault("EXC_CALL", inj.fired[1])
                inj.disarm()

    def exec_items(self, items, depth):
        for item in items:
            if "k" in item:
                if item.get("catch"):
                    try:
                        self.exec_block(item, depth)
                    except BaseException as e:  # noqa
                        if not self.env.seams.is_injected(e):
                            raise
                        self.check_stack("after catching %s outside block %s" % (type(e).__name__, item["k"]))
                else:
                    self.exec_block(item, depth)
                continue
            self.pos += 1
            self.maybe_body_fault()
            if item["t"] == "probe":
                self.check_stack("probe@%d" % self.pos)
                self.probe("probe@%d" % self.pos)
            else:
                name = item["w"]
                try:
                    self.armed(lambda: self.work(name))
                    self.env.stats["work_ok"] += 1
                except Violation:
                    raise
                except BaseException as e:  # noqa
                    if self.env.seams.is_injected(e) or not isinstance(e, Exception):
                        raise
                    self.env.stats["work_errors"] += 1
                self.check_stack("after work %s@%d" % (name, self.pos))

    def exec_block(self, node, depth):
        from funsor import interpreter

        env = self.env
        kind = node["k"]
        self.pos += 1  # the enter is an item
        self.maybe_body_fault()
        prev_top = interpreter.get_interpretation()
        prev_model_len = len(self.model)
        env.stats["max_depth"] = max(env.stats["max_depth"], depth)
        entered = [False]

        closer = [None]

        def body():
            closer[0]()
            entered[0] = True
            pushed = self.check_pushed(kind, prev_top, "enter %s@%d" % (kind, self.pos))
            sem = sem_enter(kind, self.top_sem())
            tape = None
            if kind in ("tape", "tape_shared"):
                tape = pushed.subinterpretations[0]
            self.model.append((sem, pushed, tape, kind))
            self.check_stack("entered %s" % kind)
            self.exec_items(node["body"], depth + 1)

        try:
            closer[0] = self.open_window()
            try:
                cm = env.make_cm(kind)
                if node["mode"] == "deco":
                    cm(body)()
                elif node["mode"] == "helper":
                    import warnings

                    with warnings.catch_warnings():
                        warnings.simplefilter("ignore")
                        helper_cm = env.funsor.interpreter.interpretation(cm)  # the deprecated spelling
                    with helper_cm:
                        body()
                else:
                    with cm:
                        body()
            finally:
                closer[0]()
        except Violation:
            raise
        except BaseException as e:  # noqa
            del self.model[prev_model_len:]
            if not entered[0]:
                env.stats["enter_failures"] += 1
            else:
                env.stats["unwound_blocks"] += 1
            self.check_exit(kind, prev_top, "left %s by %s" % (kind, type(e).__name__))
            raise
        else:
            del self.model[prev_model_len:]
            self.check_exit(kind, prev_top, "left %s normally" % kind)

    def open_window(self):
        """Open the injection window for the current item (arming it if it is the
        fault position); returns an idempotent closer."""
        inj = self.env.inj
        pos = self.pos
        arm = self.fault_here("call")
        if arm:
            self.fired = True
            inj.arm(self.fault["n"], self.fault.get("exc", "MemoryError"))
        c0 = inj.count
        inj.open = True
        done = [False]

        def close():
            if done[0]:
                return
            done[0] = True
            inj.open = False
            self.call_counts[pos] = inj.count - c0
            if arm:
                if inj.fired is not None:
                    self.count_fault("EXC_CALL", inj.fired[1])
                inj.disarm()

        return close

    def check_exit(self, kind, prev_top, where):
        from funsor import interpreter

        if interpreter.get_interpretation() is not prev_top:
            raise Violation(
                "exit-restores",
                "%s: active interpretation is %r, but %r was active before the matching entry; stack=%r"
                % (where, interpreter.get_interpretation(), prev_top, interpreter._STACK),
            )
        self.check_stack(where)

    def run(self):
        env = self.env
        env.stats["runs"] += 1
        try:
            try:
                self.exec_items(self.forest, 1)
            except Violation:
                raise
            except BaseException as e:  # noqa
                if not env.seams.is_injected(e):
                    raise
            self.model = []
            self.check_stack("after outermost block")
            self.final_liveness()
        except Violation as v:
            return {"invariant": v.invariant, "message": v.message}
        return None

    def final_liveness(self):
        env = self.env
        f = env.funsor
        from funsor import ops

        x = env.fresh_tensor(("i", "j"), (2, 3))
        z = (x * x).reduce(ops.add, "j")
        if not isinstance(z, f.Tensor) or z.data.shape != (2,):
            raise Violation("liveness", "after the last block a clean eager evaluation gave %r" % (z,))
        want = (x.data * x.data).sum(1)
        if not env.np.allclose(z.data, want):
            raise Violation("liveness", "after the last block a clean eager evaluation gave a wrong value")


def count_items(forest):
    n = 0
    for item in forest:
        n += 1
        if "k" in item:
            n += count_items(item["body"])
    return n


def tree_sig(forest):
    def s(item):
        if "k" in item:
            return "%s%s%s[%s]" % (item["k"], {"deco": "@", "helper": "~"}.get(item["mode"], ""), "!" if item.get("catch") else "", ",".join(s(b) for b in item["body"]))
        return "p" if item["t"] == "probe" else "w:" + item["w"]

    return ";".join(s(i) for i in forest)


def run_batch(payload):
    """Child: for each tree, a fault-free run, then every body position and
    every (capped) internal call index of every work step / enter."""
    import gc

    env = _Env()
    seams = env.seams
    r = W.rng(payload.get("seed", 0), "c17", "faults")
    violations = []
    runs = []
    explicit = payload.get("runs")  # replay / minimised form: explicit (tree, fault) list
    nontrivial = set()
    samples = []
    truncated = [0]
    trees_done = [0]
    import time

    t_start = time.monotonic()

    def do(forest, fault):
        run = Run(env, forest, fault)
        v = run.run()
        dirty = seams.hard_reset_stack(env.base_stack)
        if v is None and dirty:
            v = {"invariant": "stack-dirty-after-run", "message": "stack differed from base after run"}
        if v is not None:
            v["tree"] = tree_sig(forest)
            v["fault"] = fault
            v["run"] = {"tree": forest, "fault": fault}
            v["fingerprint"] = "%s|%s" % (v["invariant"], (fault or {}).get("kind"))
            violations.append(v)
        if run.fired:
            nontrivial.add((tree_sig(forest), json.dumps(fault, sort_keys=True)))
        gc.collect()
        return run, v

    if explicit is not None:
        for spec in explicit:
            do(spec["tree"], spec["fault"])
            if violations:
                break
    else:
        for forest in payload["trees"]:
            base_run, v = do(forest, {"kind": "none"})
            if v is not None:
                break
            nitems = base_run.pos
            # body positions: every item boundary
            for p in range(1, nitems + 1):
                _, v = do(forest, {"kind": "body", "pos": p, "exc": r.choice(EXC_TYPES)})
                if v is not None:
                    break
            if violations:
                break
            # internal calls
            cands = []
            cap = payload["cap"]
            for p, ncalls in sorted(base_run.call_counts.items()):
                if ncalls <= 0:
                    continue
                if ncalls <= cap:
                    ns = list(range(1, ncalls + 1))
                else:
                    ns = list(range(1, cap // 2 + 1))
                    ns += sorted(r.sample(range(cap // 2 + 1, ncalls + 1), min(payload["sample"], ncalls - cap // 2)))
                cands.extend((p, n) for n in ns)
            limit = payload.get("runs_per_tree")
            if limit and len(cands) > limit:
                keep = set(r.sample(range(len(cands)), limit))
                cands = [c for i, c in enumerate(cands) if i in keep]
                truncated[0] += 1
            for p, n in cands:
                _, v = do(forest, {"kind": "call", "pos": p, "n": n, "exc": r.choice(EXC_TYPES)})
                if v is not None:
                    break
            if violations:
                break
            trees_done[0] += 1
            if time.monotonic() - t_start > payload.get("time_limit", 1e9):
                break
            if len(samples) < 2:
                samples.append({"tree": tree_sig(forest), "items": nitems, "calls_per_item": base_run.call_counts})
    st = env.stats
    st["fault_sites"] = sorted(st["fault_sites"])
    return {
        "violations": violations[:1],
        "stats": st,
        "nontrivial": len(nontrivial),
        "trees": trees_done[0] if explicit is None else len(explicit),
        "trees_truncated": truncated[0],
        "samples": samples,
    }


###############################################################################
# runner side: evidence and minimisation


def summarize(jobs, results, tier):
    tot = {
        "runs": 0,
        "faults_fired": {},
        "enter_failures": 0,
        "unwound_blocks": 0,
        "max_depth": 0,
        "probes": 0,
        "invariant_checks": 0,
        "work_errors": 0,
        "work_ok": 0,
    }
    sites = set()
    nontrivial = 0
    trees = 0
    ex_trees = 0
    samples = []
    for job, res in zip(jobs, results):
        if not res or res.get("status") != "ok":
            continue
        rr = res["res"]
        st = rr["stats"]
        for k in ("runs", "enter_failures", "unwound_blocks", "probes", "invariant_checks", "work_errors", "work_ok"):
            tot[k] += st[k]
        tot["max_depth"] = max(tot["max_depth"], st["max_depth"])
        tot["twin_consultations"] = tot.get("twin_consultations", 0) + st.get("twin_consultations", 0)
        for k, v in st["faults_fired"].items():
            tot["faults_fired"][k] = tot["faults_fired"].get(k, 0) + v
        sites.update(st["fault_sites"])
        nontrivial += rr["nontrivial"]
        trees += rr["trees"]
        if job["payload"].get("exhaustive_part"):
            ex_trees += rr["trees"]
        if len(samples) < 4:
            samples.extend(rr["samples"][:1])
    cov = {
        "evaluations": tot["runs"],
        "distinct_nontrivial": nontrivial,
        "rule": "one evaluation = one execution of a context-block tree under one fault (none / exception between two "
        "body items / exception at the n-th funsor-internal call of one work step or context entry); non-trivial = the "
        "fault actually fired; distinct = distinct (tree, fault) pairs. Trees: every forest of <=%d blocks over the "
        "%s-context alphabet (enumerated), plus seeded random trees to depth %d; per work step every call index up to a "
        "cap, a seeded sample beyond it." % (2 if tier == "quick" else 3, "quick" if tier == "quick" else "full", 5 if tier == "quick" else 6),
        "samples": samples,
        "exhaustive": False,
        "trees": trees,
        "trees_in_enumerated_part": ex_trees,
        "simulated_steps_invariant_checks": tot["invariant_checks"],
        "faults_fired_by_kind": tot["faults_fired"],
        "distinct_fault_sites": len(sites),
        "fault_sites_sample": sorted(sites)[:60],
        "blocks_left_by_exception": tot["unwound_blocks"],
        "enter_failures": tot["enter_failures"],
        "max_nesting_depth": tot["max_depth"],
        "probe_steps": tot["probes"],
        "work_steps_ok": tot["work_ok"],
        "probe_user_rule_consultations_inside_library_blocks": tot.get("twin_consultations", 0),
        "work_steps_raising_genuinely": tot["work_errors"],
        "components": {
            "real": ["funsor (all of it, working tree)", "numpy", "multipledispatch", "opt_einsum", "contextlib"],
            "stubbed": ["object hashes of funsors/ops (seeded hook)", "automatic GC trigger (disabled; explicit collections only)"],
        },
    }
    return cov


def minimize(job, violation, test):
    """Try the failing (tree, fault) alone in a fresh fork, then shrink the tree."""
    run = violation.get("run")
    if not run:
        return job, violation
    inv = violation["invariant"]

    def attempt(spec):
        j = dict(job, payload={"runs": [spec], "seed": job["payload"].get("seed", 0)})
        for v in test(j):
            if v.get("invariant") == inv:
                return j, v
        return None

    best = attempt(run)
    if best is None:
        return job, violation  # state-dependent: keep the whole batch as the replay
    spec = run
    improved = True
    while improved:
        improved = False
        for cand in shrink_specs(spec):
            got = attempt(cand)
            if got is not None:
                spec, best = cand, got
                improved = True
                break
    return best


def shrink_specs(spec):
    """Smaller variants of a (tree, fault) spec.  Body/call faults are
    addressed by execution position, so only position-preserving shrinks
    (dropping items *after* the fault position, unwrapping trailing blocks) and
    fault-free shrinks are attempted."""
    tree, fault = spec["tree"], spec["fault"]
    out = []
    # drop whole top-level trees from the end
    if len(tree) > 1:
        out.append({"tree": tree[:-1], "fault": fault})
    # drop trailing items of any block

    def variants(items):
        res = []
        if len(items) > 1:
            res.append(items[:-1])
        for i, it in enumerate(items):
            if "k" in it:
                for vb in variants(it["body"]):
                    res.append(items[:i] + [dict(it, body=vb)] + items[i + 1 :])
        return res

    for v in variants(tree):
        out.append({"tree": v, "fault": fault})
    return out
