"""C03 - exact interpretations are interchangeable: deferred equals immediate;
Memoize is a faithful cache.

Engine `confluence` (schedules) + `memo` model.  The scheduler decides, per
constructor call, the interpretation in force (which work is deferred), what
happens between construction and forcing (collections, cache drops, fresh-name
jumps, a failed first forcing attempt) and how the deferred term is forced.
The reference is the same program run immediately under eager in the same
world.  Memoize.interpret is wrapped and checked call by call against a model
dictionary keyed by canonical (class, args).  DESIGN.md section 6 (C03)."""

import json

from sim import world as W

from . import c02

PROPERTY = "C03"
LEVEL = "exploration"
BUDGET = {"quick": 300, "thorough": 3000}
ASSUMPTIONS = [
    "reference = the real code on the trivial schedule (everything eager, immediately): a rule wrong under every schedule passes (that is C01)",
    "float comparison rtol=1e-6; sequential/moment_matching forcing only for programs without Gaussians (the core workload has none)",
    "numpy backend; both reinterpreters and FUNSOR_TYPECHECK on/off are covered by world configuration",
]

SCHED_ALPHABET = [
    "eager",
    "lazy",
    "reflect",
    "normalize",
    "memoize:eager",
    "memoize:lazy",
    "lazy",
    "reflect",
    # orders of nesting the context managers (innermost total interpretation wins)
    "eager>lazy",
    "lazy>eager",
    "normalize>lazy>memoize",
    "lazy>memoize>normalize",
    "reflect>memoize>lazy",
    "memoize>lazy>memoize",
    "sequential>lazy",
    "moment_matching>normalize",
    "lazy>reflect>memoize",
]
FORCES = ["reinterpret", "reinterpret", "normalize", "sequential", "moment_matching", "memoize_reinterpret"]
EVENTS = ["gc", "cache_drop", "gensym_jump", "failed_attempt", "none", "none"]


def plan(seed, tier):
    nprog = 1600 if tier == "quick" else 16000
    ngen = 16
    jobs = []
    for g in range(ngen):
        jobs.append(
            {
                "world": c02.GEN_WORLD,
                "fn": "gen_programs",
                "payload": {"seed": "%s/c03gen/%d" % (seed, g), "count": nprog // ngen, "tier": tier, "corpus": g < (2 if tier == "quick" else 16)},
                "timeout": 900,
            }
        )
    return jobs


def gen_programs(payload):
    return c02.gen_programs(payload)


def post_plan(seed, tier, jobs, results):
    nworlds = 8 if tier == "quick" else 16
    worlds = [W.make_world(seed, i) for i in range(nworlds)]
    for i, w in enumerate(worlds):
        w["tco"] = i % 2
        w["typecheck"] = (i // 2) % 2
    out = []
    pid = 0
    nsched = 8 if tier == "quick" else 24
    for job, res in zip(jobs, results):
        if not res or res.get("status") != "ok":
            continue
        for item in res["res"]["programs"]:
            pid += 1
            out.append(
                {
                    "world": worlds[pid % nworlds],
                    "fn": "run_schedules",
                    "payload": {
                        "pid": pid,
                        "program": item["program"],
                        "family": item["family"],
                        "nsched": nsched,
                        "seed": "%s/c03/p%d" % (seed, pid),
                    },
                    "timeout": 900,
                }
            )
    nmemo = 64 if tier == "quick" else 640
    for m in range(nmemo):
        out.append(
            {
                "world": worlds[m % nworlds],
                "fn": "memo_histories",
                "payload": {"seed": "%s/c03/memo%d" % (seed, m), "count": 12 if tier == "quick" else 40},
                "timeout": 900,
            }
        )
    # cache dicts that outlive their operands, in an interpreter WITHOUT the seeded hash hook:
    # there funsors hash by address, so a cache that does not keep its keys alive is answered
    # by whatever is allocated at a recycled address
    for m in range(4 if tier == "quick" else 24):
        out.append(
            {
                "world": worlds[m % nworlds],
                "fn": "memo_native_hash",
                "payload": {"seed": "%s/c03/native%d" % (seed, m), "blocks": 120 if tier == "quick" else 400},
                "timeout": 600,
            }
        )
    return out


###############################################################################
# child side: schedules


def make_schedule(r, n):
    style = r.random()
    if style < 0.25:  # one deferred interpretation throughout
        return [r.choice(["lazy", "reflect", "normalize", "memoize:lazy"])] * n
    if style < 0.4:  # deferred prefix, eager suffix
        k = r.randint(0, n)
        a = r.choice(["lazy", "reflect", "normalize"])
        return [a] * k + ["eager"] * (n - k)
    return [r.choice(SCHED_ALPHABET) for _ in range(n)]


def _expression_inputs(prog, roots):
    """Inputs of the expression itself: the term built under reflect."""
    from sim import execs

    res = execs.run_program(prog, "reflect", "none", roots=roots)
    out = {}
    for root, val in res.items():
        if isinstance(val, Exception):
            out[root] = None
        else:
            out[root] = sorted(val.inputs)
    return out


def _run_ref(args):
    from sim import execs, oracle, program

    prog, family = args
    oracle.set_carrier(family)
    roots = program.roots(prog)
    results = execs.run_program(prog, "eager", "none", roots=roots)
    return {"results": execs.pack_results(results), "expr_inputs": _expression_inputs(prog, roots)}


def _run_sched(args):
    import gc

    from funsor import interpreter

    from sim import execs, oracle, program, seams

    prog, family, spec = args
    oracle.set_carrier(family)
    roots = program.roots(prog)
    memo = MemoMonitor()
    memo.install()
    fired = {}
    env = {}
    built = execs.run_program(prog, spec["schedule"], "none", roots=roots, env=env)
    for ev in spec["events"]:
        if ev == "gc":
            gc.collect()
        elif ev == "cache_drop":
            drop_dispatch_caches()
        elif ev == "gensym_jump":
            seams.set_gensym(seams.get_gensym() + spec.get("jump", 1000))
        elif ev == "failed_attempt":
            inj = seams.CallInjector()
            inj.install()
            inj.arm(spec.get("fail_at", 50), "MemoryError")
            try:
                with inj.window():
                    for root in roots:
                        if not isinstance(built[root], Exception):
                            execs.force_value(built[root], spec["force"] if spec["force"] != "memoize_reinterpret" else "reinterpret")
            except Exception as e:  # noqa
                if not seams.is_injected(e):
                    pass
            if inj.fired:
                fired["EXC_CALL"] = fired.get("EXC_CALL", 0) + 1
            inj.disarm()
            inj.uninstall()
            base = interpreter._STACK[:2]
            interpreter._STACK[:] = base
        if ev != "none":
            fired[ev] = fired.get(ev, 0) + 1
    out = {}
    for root in roots:
        val = built[root]
        if isinstance(val, Exception):
            out[root] = val
            continue
        try:
            if spec["force"] == "memoize_reinterpret":
                from funsor.interpretations import memoize

                with memoize():
                    out[root] = execs.force_value(val, "reinterpret")
            else:
                out[root] = execs.force_value(val, spec["force"])
        except Exception as e:  # noqa
            out[root] = e
    memo.uninstall()
    return {"results": execs.pack_results(out), "memo": memo.report(), "fired": fired}


def drop_dispatch_caches():
    from funsor.typing import deep_issubclass

    from sim import seams

    for interp in seams.dispatched_interpretations():
        for disp in interp.registry.registry.values():
            disp._cache.clear()
    deep_issubclass.cache_clear()


def run_schedules(payload):
    from sim import oracle
    from sim.execs import compare_packed
    from sim.iso import fork_call

    prog, family = payload["program"], payload.get("family")
    r = W.rng(payload.get("seed", 0), "c03")
    stats = {"runs": 0, "pass": 0, "declined": 0, "errors": 0, "memo_calls": 0, "memo_hits": 0, "input_checks": 0, "faults": {}, "nontrivial": 0}
    violations = []
    out = {"violations": violations, "stats": stats, "sample": None}
    ref = fork_call(_run_ref, ((prog, family),), timeout=60)
    stats["runs"] += 1
    if ref.get("status") != "ok":
        stats["errors"] += 1
        return out
    ref = ref["res"]
    if not any(v["status"] == "ok" for v in ref["results"].values()):
        return out
    specs = payload.get("specs")
    # moment_matching is exact only when no Gaussian mixture is involved (the property says so):
    # programs of the Gaussian workload are never forced or scheduled through it
    gaussian = any(op["op"] in ("gaussian", "delta") for op in prog)
    forces = [f for f in FORCES if not (gaussian and f == "moment_matching")]
    if specs is None:
        specs = []
        for s in range(payload["nsched"]):
            nev = r.choice([0, 1, 1, 2])
            sched = make_schedule(r, len(prog))
            if gaussian:
                sched = [x.replace("moment_matching>normalize", "normalize") for x in sched]
            specs.append(
                {
                    "schedule": sched,
                    "events": [r.choice(EVENTS) for _ in range(nev)],
                    "force": r.choice(forces),
                    "jump": r.choice([1, 9, 99, 1000, 10**6 - 3]),
                    "fail_at": r.randint(1, 400),
                }
            )
    seen = set()
    for spec in specs:
        key = json.dumps(spec, sort_keys=True)
        if key in seen:
            continue
        seen.add(key)
        got = fork_call(_run_sched, ((prog, family, spec),), timeout=60)
        stats["runs"] += 1
        if got.get("status") != "ok":
            stats["errors"] += 1
            continue
        got = got["res"]
        if any(s not in ("eager", "lazy>eager") for s in spec["schedule"]):
            stats["nontrivial"] += 1
        for k, v in got["fired"].items():
            stats["faults"][k] = stats["faults"].get(k, 0) + v
        stats["memo_calls"] += got["memo"]["calls"]
        stats["memo_hits"] += got["memo"]["hits"]
        for mv in got["memo"]["violations"]:
            violations.append(dict(mv, spec=spec, fingerprint="memo|" + mv["invariant"]))
        for root, rv in ref["results"].items():
            gv = got["results"].get(root)
            if gv is None:
                continue
            try:
                msg = compare_packed(rv, gv)
            except oracle.Declined:
                stats["declined"] += 1
                continue
            exp_inputs = ref["expr_inputs"].get(root)
            if msg is None and exp_inputs is not None and gv["status"] == "ok":
                stats["input_checks"] += 1
                extra = [a[0] for a in gv["axes"] if a[0] not in exp_inputs]
                if extra:
                    msg = "forced result has free inputs %s that the expression (inputs %s) does not have" % (extra, exp_inputs)
            if msg is None:
                stats["pass"] += 1
            else:
                violations.append(
                    {
                        "invariant": "deferred-differs-from-immediate",
                        "message": "root %s: built under schedule %s, events %s, forced by %s: %s"
                        % (root, spec["schedule"], spec["events"], spec["force"], msg),
                        "spec": spec,
                        "root": root,
                        "fingerprint": "deferred|%s" % spec["force"],
                    }
                )
        if violations:
            break
        if out["sample"] is None:
            out["sample"] = {"schedule": spec["schedule"], "events": spec["events"], "force": spec["force"], "program": c02._brief(prog)}
    return out


###############################################################################
# memo model


class MemoMonitor:
    """Wraps Memoize.interpret.  Model: per cache dict, canonical key ->
    result object.  A repeated canonical key must return the identical object;
    a real-cache hit whose canonical key the model has never seen was computed
    for different arguments."""

    def __init__(self):
        self.models = {}  # id(cache) -> (cache, {ckey: result})
        self.keep = []  # strong refs: ids must not be recycled while the model lives
        self.calls = 0
        self.hits = 0
        self.violations = []
        self.orig = None

    def ckey(self, cls, args):
        import numpy as np

        import funsor

        def c(x):
            if isinstance(x, funsor.terms.Funsor) or isinstance(x, np.ndarray):
                self.keep.append(x)
                return ("obj", id(x))
            if isinstance(x, (tuple, list)):
                return ("tuple",) + tuple(c(v) for v in x)
            if isinstance(x, frozenset):
                return ("fset",) + tuple(sorted((c(v) for v in x), key=repr))
            if isinstance(x, dict):
                return ("dict",) + tuple((c(k), c(v)) for k, v in x.items())
            try:
                hash(x)
                return ("val", type(x).__name__, x)
            except TypeError:
                self.keep.append(x)
                return ("obj", id(x))

        return (funsor.typing.get_origin(cls).__name__, id(funsor.typing.get_origin(cls))) + tuple(c(a) for a in args)

    def install(self):
        from funsor.interpretations import Memoize

        mon = self
        orig = self.orig = Memoize.interpret

        def interpret(self_, cls, *args):
            mon.calls += 1
            cache = self_.cache
            entry = mon.models.get(id(cache))
            if entry is None or entry[0] is not cache:
                entry = mon.models[id(cache)] = (cache, {}, len(cache))
            model = entry[1]
            ck = mon.ckey(cls, args)
            try:
                real_key = self_.make_hash_key(cls, *args)
                real_hit = cache.get(real_key) is not None
            except Exception:  # noqa
                real_hit = False
            result = orig(self_, cls, *args)
            if ck in model:
                mon.hits += 1
                if result is not model[ck] and not mon.violations:
                    mon.violations.append(
                        {
                            "invariant": "memo-not-identical",
                            "message": "Memoize returned a different object for a repeated identical (class, args): %s" % (ck[:1],),
                        }
                    )
            else:
                if real_hit and entry[2] == 0 and not mon.violations:
                    # the cache was empty when we first saw it, so every entry was
                    # inserted under our eyes: a hit without a model entry is a
                    # result computed for different (class, args)
                    mon.violations.append(
                        {
                            "invariant": "memo-wrong-arguments",
                            "message": "Memoize returned a cached %s for %s%r although no identical (class, args) was evaluated before"
                            % (type(result).__name__, ck[0], tuple(type(a).__name__ for a in args)),
                        }
                    )
                model[ck] = result
                mon.keep.append(result)
            return result

        Memoize.interpret = interpret

    def uninstall(self):
        from funsor.interpretations import Memoize

        if self.orig is not None:
            Memoize.interpret = self.orig

    def report(self):
        return {"calls": self.calls, "hits": self.hits, "violations": self.violations[:1]}


def memo_histories(payload):
    """Userland memo histories: several memoize() blocks over one or two shared
    cache dicts, user-defined make_funsor classes applied to the same
    arguments, repeated subexpressions, interleaved with drops, collections
    and re-allocated arrays."""
    from sim.iso import fork_call

    r = W.rng(payload["seed"])
    stats = {"runs": 0, "memo_calls": 0, "memo_hits": 0, "errors": 0, "events": {}, "nontrivial": 0}
    violations = []
    sample = None
    hists = payload.get("histories")
    if hists is None:
        hists = [gen_memo_history(r) for _ in range(payload["count"])]
    for hist in hists:
        res = fork_call(_run_memo_history, (hist,), timeout=60)
        stats["runs"] += 1
        if res.get("status") != "ok":
            stats["errors"] += 1
            continue
        rr = res["res"]
        stats["memo_calls"] += rr["calls"]
        stats["memo_hits"] += rr["hits"]
        if rr["hits"]:
            stats["nontrivial"] += 1
        for k, v in rr["events"].items():
            stats["events"][k] = stats["events"].get(k, 0) + v
        for v in rr["violations"]:
            violations.append(dict(v, history=hist, fingerprint="memo|" + v["invariant"]))
        if violations:
            break
        if sample is None:
            sample = hist
    return {"violations": violations[:1], "stats": stats, "sample": sample}


MEMO_OPS = ["F", "G", "F2", "add", "mul", "neg", "reduce", "tensor", "subs"]


def gen_memo_history(r):
    """A history is a list of blocks; each block = (cache id, base, [ops]); ops
    reference a small pool of handles by index."""
    nblocks = r.randint(1, 4)
    hist = []
    for _ in range(nblocks):
        ops = []
        for _ in range(r.randint(2, 8)):
            kind = r.choice(MEMO_OPS + ["F", "G"])
            ops.append([kind, r.randrange(6), r.randrange(6)])
        hist.append(
            {
                "cache": r.choice([None, "A", "A", "B"]),
                "base": r.choice(["eager", "eager", "lazy", "normalize"]),
                "ops": ops,
                "after": r.choice(["none", "gc", "drop", "realloc", "drop+gc"]),
            }
        )
    return hist


def _run_memo_history(hist):
    import gc
    from collections import OrderedDict

    import numpy as np

    import funsor
    from funsor import ops
    from funsor.factory import Fresh, make_funsor
    from funsor.interpretations import memoize

    from sim import execs

    @make_funsor
    def F(x: funsor.Funsor) -> Fresh[lambda x: x]:
        return None

    @make_funsor
    def G(x: funsor.Funsor) -> Fresh[lambda x: x]:
        return None

    @make_funsor
    def F2(x: funsor.Funsor, y: funsor.Funsor) -> Fresh[lambda x: x]:
        return None

    mon = MemoMonitor()
    mon.install()
    caches = {"A": {}, "B": {}}
    events = {}

    def fresh_array(i):
        return np.arange(6.0).reshape(2, 3) * (i + 1)

    slots = [fresh_array(i) for i in range(3)]
    pool = [
        funsor.Tensor(slots[0], OrderedDict(i=funsor.Bint[2], j=funsor.Bint[3])),
        funsor.Tensor(slots[1], OrderedDict(i=funsor.Bint[2], j=funsor.Bint[3])),
        funsor.Variable("x", funsor.Real),
        funsor.Number(2.0),
        funsor.Variable("i", funsor.Bint[2]),
        funsor.Number(0.5),
    ]
    violations = []
    seen = {}  # (cache name, base, op kind, id(x), id(y)) -> (result, x, y): the caller's dict must serve repeats across blocks
    for block in hist:
        base = execs.INTERPS[block["base"]]
        cache = caches.get(block["cache"]) if block["cache"] else None
        calls_before = mon.calls
        try:
            with base:
                with memoize(cache):
                    for kind, a, b in block["ops"]:
                        x, y = pool[a % len(pool)], pool[b % len(pool)]
                        try:
                            if kind == "F":
                                z = F(x)
                            elif kind == "G":
                                z = G(x)
                            elif kind == "F2":
                                z = F2(x, y)
                            elif kind == "add":
                                z = x + y
                            elif kind == "mul":
                                z = x * y
                            elif kind == "neg":
                                z = -x
                            elif kind == "reduce":
                                z = x.reduce(ops.add, "i") if "i" in x.inputs else x
                            elif kind == "tensor":
                                z = funsor.Tensor(slots[a % 3], OrderedDict(i=funsor.Bint[2], j=funsor.Bint[3]))
                            elif kind == "subs":
                                z = x(i=1) if "i" in x.inputs else x
                            else:
                                continue
                        except Exception:  # noqa
                            continue
                        # a memoized result must be what the base would build for these arguments
                        if kind in ("F", "G", "F2"):
                            want = {"F": F, "G": G, "F2": F2}[kind]
                            if isinstance(z, funsor.Funsor) and funsor.typing.get_origin(type(z)) not in (want,):
                                violations.append(
                                    {
                                        "invariant": "memo-wrong-arguments",
                                        "message": "under memoize(), %s(%s) returned a %s term" % (kind, type(x).__name__, funsor.typing.get_origin(type(z)).__name__),
                                    }
                                )
                        if block["cache"] and isinstance(z, funsor.Funsor):
                            if kind == "tensor":
                                key = (block["cache"], block["base"], kind, id(slots[a % 3]), 0)
                                x = slots[a % 3]  # keep the array alive while its id is part of a key
                            else:
                                key = (block["cache"], block["base"], kind, id(x), id(y) if kind in ("F2", "add", "mul") else 0)
                            prev = seen.get(key)
                            if prev is not None and prev[0] is not z and not violations:
                                violations.append(
                                    {
                                        "invariant": "memo-not-identical",
                                        "message": "the same expression (%s of the same operands) evaluated in two memoize(cache) blocks sharing the caller's dict %s gave two different objects"
                                        % (kind, block["cache"]),
                                    }
                                )
                            seen.setdefault(key, (z, x, y))
                        pool[(a + b) % len(pool)] = z if isinstance(z, funsor.Funsor) else pool[(a + b) % len(pool)]
        except Exception:  # noqa
            pass
        if block["cache"] and mon.calls > calls_before and not cache and not violations:
            violations.append(
                {
                    "invariant": "memo-cache-not-filled",
                    "message": "memoize(cache) made %d interpret calls but the caller's dict %s is still empty" % (mon.calls - calls_before, block["cache"]),
                }
            )
        after = block["after"]
        events[after] = events.get(after, 0) + 1
        if "drop" in after:
            pool[0] = funsor.Tensor(slots[0], OrderedDict(i=funsor.Bint[2], j=funsor.Bint[3]))
            pool[1] = funsor.Tensor(slots[1], OrderedDict(i=funsor.Bint[2], j=funsor.Bint[3]))
        if "gc" in after:
            gc.collect()
        if after == "realloc":
            k = len(events) % 3
            slots[k] = None
            slots[k] = fresh_array(k + 7)
        if violations or mon.violations:
            break
    mon.uninstall()
    return {"calls": mon.calls, "hits": mon.hits, "violations": (violations + mon.violations)[:1], "events": events}


def memo_native_hash(payload):
    """Runs native_memo_main in a new interpreter whose funsor uses the native (address
    based) hashes: the seeded hash hook would make every hash unique for ever and so hide
    caches that rely on their keys staying alive."""
    import os
    import subprocess
    import sys

    env = {k: v for k, v in os.environ.items() if not k.startswith("FUNSOR_VERIF")}
    p = subprocess.run(
        [sys.executable, "-c", "from checks import c03; c03.native_memo_main()"],
        input=json.dumps(payload),
        capture_output=True,
        text=True,
        env=env,
        cwd=W.VERIF_DIR,
        timeout=500,
    )
    line = [l for l in p.stdout.splitlines() if l.startswith("RESULT ")]
    if p.returncode != 0 or not line:
        raise RuntimeError("native-hash interpreter failed: " + (p.stderr or p.stdout)[-1500:])
    return json.loads(line[-1][7:])


def native_memo_main():
    import sys

    import numpy as np

    import funsor

    funsor.set_backend("numpy")
    from collections import OrderedDict

    from funsor import ops
    from funsor.interpretations import memoize

    payload = json.loads(sys.stdin.read())
    r = W.rng(payload["seed"])
    caches = [{}, {}]
    stats = {"runs": 1, "memo_blocks": 0, "memo_value_comparisons": 0, "nontrivial": 1, "hook_active": bool(getattr(getattr(funsor, "_verif", None), "ENABLED", False))}
    violation = None
    for blk in range(payload["blocks"]):
        # operands are built OUTSIDE the block and die with this iteration
        shape = (2, 3)
        x = funsor.Tensor(np.full(shape, 1.0 + blk) + np.arange(6.0).reshape(shape) * 0.01, OrderedDict(i=funsor.Bint[2], j=funsor.Bint[3]))
        y = funsor.Tensor(np.full((3,), 0.5 * (blk % 7) + 0.25), OrderedDict(j=funsor.Bint[3]))
        exprs = [
            ("x.reduce(add,'i')", lambda: x.reduce(ops.add, "i")),
            ("x*2", lambda: x * 2.0),
            ("(x*y).reduce(add,'j')", lambda: (x * y).reduce(ops.add, "j")),
            ("x+y", lambda: x + y),
            ("x.exp()", lambda: x.exp()),
            ("x(i=1)", lambda: x(i=1)),
        ]
        chosen = r.sample(exprs, r.randint(2, len(exprs)))
        cache = caches[blk % 2] if r.random() < 0.8 else caches[0]
        with memoize(cache):
            got = [(name, fn()) for name, fn in chosen]
        stats["memo_blocks"] += 1
        for (name, g), (_, fn) in zip(got, chosen):
            want = fn()
            stats["memo_value_comparisons"] += 1
            same_inputs = set(g.inputs) == set(want.inputs)
            if same_inputs and want.inputs:
                want = want.align(tuple(g.inputs))
            if not same_inputs or not np.allclose(np.asarray(g.data), np.asarray(want.data)):
                violation = {
                    "invariant": "memo-wrong-arguments",
                    "message": "block %d of a history that re-uses one cache dict across memoize blocks: memoized %s is %s, evaluated directly it is %s (the cached result was computed for operands that no longer exist)"
                    % (blk, name, np.asarray(g.data).ravel()[:4].tolist(), np.asarray(want.data).ravel()[:4].tolist()),
                    "fingerprint": "memo-wrong-arguments",
                }
                break
        del x, y, got, chosen, exprs
        if violation:
            break
    print("RESULT " + json.dumps({"violations": [violation] if violation else [], "stats": stats, "sample": None}))


###############################################################################
# runner side


def summarize(jobs, results, tier):
    tot = {"runs": 0, "pass": 0, "declined": 0, "errors": 0, "memo_calls": 0, "memo_hits": 0, "input_checks": 0, "nontrivial": 0}
    faults = {}
    events = {}
    samples = []
    programs = 0
    hist_runs = 0
    for job, res in zip(jobs, results):
        if job["fn"] not in ("run_schedules", "memo_histories", "memo_native_hash") or not res or res.get("status") != "ok":
            continue
        st = res["res"]["stats"]
        for k in tot:
            tot[k] += st.get(k, 0)
        for k, v in st.get("faults", {}).items():
            faults[k] = faults.get(k, 0) + v
        for k, v in st.get("events", {}).items():
            events[k] = events.get(k, 0) + v
        if job["fn"] == "run_schedules":
            programs += 1
        else:
            hist_runs += st.get("runs", 0)
        s = res["res"].get("sample")
        if s and len(samples) < 3 and (job["fn"] == "memo_histories" or len(samples) < 2):
            samples.append(s)
    return {
        "evaluations": tot["runs"],
        "distinct_nontrivial": tot["nontrivial"],
        "rule": "one evaluation = one fresh-fork execution of (program, per-call interpretation schedule, between-events, forcing "
        "method) or of one memoize history. Schedules are drawn per constructor call from {eager, lazy, reflect, normalize, "
        "memoize(eager), memoize(lazy)}; events from {gc, dispatch-cache drop, fresh-name jump, failed first forcing attempt}; "
        "forcing from {reinterpret, normalize+reinterpret, sequential, moment_matching, reinterpret under memoize}. "
        "Non-trivial = at least one call was deferred (schedule not all-eager) or, for memo histories, the cache was hit; "
        "duplicates of (program, spec) are skipped, so non-trivial runs are distinct.",
        "samples": samples or [{"note": "no sample recorded"}],
        "exhaustive": False,
        "programs": programs,
        "memo_history_runs": hist_runs,
        "verdicts": {"PASS": tot["pass"], "DECLINED": tot["declined"], "fork_errors": tot["errors"]},
        "free_input_checks": tot["input_checks"],
        "memoize_interpret_calls_checked": tot["memo_calls"],
        "memoize_hits_checked_identical": tot["memo_hits"],
        "native_hash_memo_blocks": sum(r["res"]["stats"].get("memo_blocks", 0) for j, r in zip(jobs, results) if j["fn"] == "memo_native_hash" and r and r.get("status") == "ok"),
        "native_hash_memo_value_comparisons": sum(r["res"]["stats"].get("memo_value_comparisons", 0) for j, r in zip(jobs, results) if j["fn"] == "memo_native_hash" and r and r.get("status") == "ok"),
        "faults_fired_by_kind": dict(faults, **{"history:" + k: v for k, v in events.items()}),
        "components": {
            "real": ["funsor (working tree)", "numpy", "multipledispatch"],
            "stubbed": ["object hashes (seeded hook)", "automatic GC (disabled; collections are scheduled events)"],
        },
    }


def minimize(job, violation, test):
    from sim import progutil as P

    inv = violation["invariant"]
    if job["fn"] == "memo_histories":
        hist = violation.get("history")
        if not hist:
            return job, violation

        def attempt(h):
            j = dict(job, payload=dict(job["payload"], histories=[h]))
            for v in test(j):
                if v.get("invariant") == inv:
                    return j, v
            return None

        best = attempt(hist)
        if best is None:
            return job, violation
        improved = True
        budget = 40
        while improved and budget > 0:
            improved = False
            cands = []
            for bi in range(len(hist)):
                if len(hist) > 1:
                    cands.append(hist[:bi] + hist[bi + 1 :])
                for oi in range(len(hist[bi]["ops"])):
                    if len(hist[bi]["ops"]) > 1:
                        nb = dict(hist[bi], ops=hist[bi]["ops"][:oi] + hist[bi]["ops"][oi + 1 :])
                        cands.append(hist[:bi] + [nb] + hist[bi + 1 :])
            for cand in cands:
                budget -= 1
                if budget <= 0:
                    break
                got = attempt(cand)
                if got:
                    hist, best = cand, got
                    improved = True
                    break
        return best
    spec = violation.get("spec")
    if not spec:
        return job, violation
    budget = [40]

    def attempt(prog, sp):
        if budget[0] <= 0 or not prog:
            return None
        budget[0] -= 1
        j = dict(job, payload=dict(job["payload"], program=prog, specs=[sp]))
        for v in test(j):
            if v.get("invariant") == inv:
                return j, v
        return None

    prog = job["payload"]["program"]
    best = attempt(prog, spec)
    if best is None:
        return job, violation
    # simplify spec: drop events
    if spec["events"]:
        sp2 = dict(spec, events=[])
        got = attempt(prog, sp2)
        if got:
            spec, best = sp2, got
    root = violation.get("root")
    if root:
        keep = P.prune(prog, [root])
        if len(keep) < len(prog):
            idx = [i for i, op in enumerate(prog) if op in keep]
            sp2 = dict(spec, schedule=[spec["schedule"][i] for i in idx])
            got = attempt(keep, sp2)
            if got:
                prog, spec, best = keep, sp2, got
    improved = True
    while improved and budget[0] > 0:
        improved = False
        for idx in range(len(prog) - 1, -1, -1):
            cand = P.drop_op(prog, idx)
            if not cand or len(cand) == len(prog):
                continue
            keep_idx = [i for i, op in enumerate(prog) if op in cand]
            sp2 = dict(spec, schedule=[spec["schedule"][i] for i in keep_idx])
            got = attempt(cand, sp2)
            if got:
                prog, spec, best = cand, sp2, got
                improved = True
                break
    return best
