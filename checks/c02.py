"""C02 - every rewrite step of an exact interpretation preserves value.

Engine `confluence`: each rule firing of a run is a fault point.  For a
program P and interpretation setting I the undisturbed run R0 is compared with
  * Rk  : identical, except that firing k is declined (k = 1..K, enumerated),
  * Rr  : rule function r never fires on operands that still have free inputs,
  * R0 in other hash worlds (cross-world agreement),
and every firing's result must not depend on inputs the reflected term lacks.
DESIGN.md section 6 (C02)."""

import json

from sim import world as W

PROPERTY = "C02"
LEVEL = "fault_enumeration"
BUDGET = {"quick": 480, "thorough": 3000}
ASSUMPTIONS = [
    "the value a declined rule's result is compared with is obtained from funsor itself by another route "
    "(the fall-through chain, or the same rules on ground instances); a rule that is wrong on every route passes",
    "float comparison rtol=1e-6, atol=1e-7*scale; data drawn from tame ranges; carriers respect each semiring's side condition",
    "numpy backend",
]

MODES = {
    # name: (schedule interpretation, force)
    "eager": ("eager", "none"),
    "lazy": ("lazy", "reinterpret"),
    "normalize_build": ("normalize", "reinterpret"),
    "lazy_normalize": ("lazy", "normalize"),
    "sequential": ("sequential", "none"),
    "optimizer": ("lazy", "optimizer"),
    "reflect": ("reflect", "reinterpret"),
}
GEN_WORLD = {"index": "gen", "pyhash": 1, "fhash": 1, "tco": 0, "typecheck": 0, "profile": 0}


def plan(seed, tier):
    nprog = 960 if tier == "quick" else 16000
    ngen = 16
    jobs = []
    for g in range(ngen):
        jobs.append(
            {
                "world": GEN_WORLD,
                "fn": "gen_programs",
                "payload": {"seed": "%s/gen/%d" % (seed, g), "count": nprog // ngen, "tier": tier, "corpus": g < (2 if tier == "quick" else 16)},
                "timeout": 900,
            }
        )
    return jobs


def post_plan(seed, tier, jobs, results):
    nworlds = 6 if tier == "quick" else 12
    worlds = [W.make_world(seed, i) for i in range(nworlds)]
    for i, w in enumerate(worlds):
        w["tco"] = i % 2
        w["typecheck"] = 1 if i % 3 == 2 else 0
    r = W.rng(seed, "c02", "assign")
    out = []
    pid = 0
    for job, res in zip(jobs, results):
        if not res or res.get("status") != "ok":
            continue
        for item in res["res"]["programs"]:
            pid += 1
            mode = item["mode"]
            ws = r.sample(range(nworlds), 3)
            for n, wi in enumerate(ws):
                out.append(
                    {
                        "world": worlds[wi],
                        "fn": "enumerate_program",
                        "payload": {
                            "pid": pid,
                            "program": item["program"],
                            "family": item["family"],
                            "mode": mode,
                            "enumerate": n == 0,
                            "max_k": 40 if tier == "quick" else 250,
                            "seed": "%s/p%d" % (seed, pid),
                        },
                        "timeout": 900 if tier == "quick" else 2700,
                    }
                )
    # heavy (enumerating) jobs first
    out.sort(key=lambda j: not j["payload"]["enumerate"])
    return out


###############################################################################
# child side


def gen_programs(payload):
    from sim import program

    r = W.rng(payload["seed"])
    out = []
    modes = list(MODES)
    if payload.get("corpus"):
        for prog, family in program.corpus(r):
            for mode in modes:
                out.append({"program": prog, "family": family, "mode": mode, "workload": "corpus"})
    for n in range(payload["count"]):
        if r.random() < 0.2:
            prog, family = program.gen_gauss(r)
            mode = r.choice(["eager", "eager", "lazy", "reflect", "normalize_build", "lazy_normalize", "sequential"])
            out.append({"program": prog, "family": family, "mode": mode, "workload": "gauss"})
            continue
        if r.random() < 0.3:
            prog, family = program.gen_semiring(r)
            mode = r.choice(["normalize_build", "lazy_normalize", "optimizer", "optimizer", "lazy", "eager", "sequential"])
            out.append({"program": prog, "family": family, "mode": mode, "workload": "semiring"})
            continue
        g = program.Gen(r)
        prog = g.generate(r.randint(3, 10), n_leaves=r.randint(2, 4))
        out.append({"program": prog, "family": g.family_name, "mode": r.choice(modes), "workload": "core"})
    return {"programs": out, "violations": [], "stats": {}}


def _run_variant(args):
    """Executed in a grandchild fork."""
    from sim import execs

    prog, mode, variant = args[:3]
    from sim import oracle

    oracle.set_carrier(args[3] if len(args) > 3 else None)
    sched, force = MODES[mode]
    ctl = execs.FaultController(
        decline_k=variant.get("k"),
        disable_rule=variant.get("rule"),
        record=variant.get("record", False),
        check_dependence=variant.get("record", False),
    )
    results = execs.run_program(prog, sched, force, ctl=ctl)
    return {
        "results": execs.pack_results(results),
        "K": ctl.firings,
        "fired": ctl.fired if variant.get("record") else None,
        "rules": ctl.rules,
        "new_dependence": ctl.new_dependence,
        "declined": ctl.declined,
        "declined_rule": ctl.declined_rule,
        "disabled": ctl.disabled,
    }


def _run_reference(args):
    """Executed in a grandchild fork: marginals over real inputs against the
    closed form of a quadratic fitted through point evaluations (sim/refint.py)."""
    from sim import execs, oracle, refint

    prog, mode, family = args
    oracle.set_carrier(family)
    sched, force = MODES[mode]
    env = {}
    execs.run_program(prog, sched, force, env=env)
    stats = {"reference_marginals": 0}
    # dense numpy reference model of the tensor fragment (sim/refmodel.py)
    from collections import OrderedDict

    import numpy as np

    import funsor
    from sim import refmodel

    ref = refmodel.evaluate(prog)
    stats["refmodel_values"] = 0
    stats["refmodel_silent"] = 0
    for op in prog:
        out = op["out"]
        if out not in env:
            continue
        if out not in ref:
            stats["refmodel_silent"] += 1
            continue
        try:
            val = execs.force_value(env[out], force)
        except Exception:  # noqa
            continue
        if not isinstance(val, funsor.terms.Funsor):
            continue
        v = ref[out]
        arr = v.arr
        if val.output.dtype == "real":
            arr = arr.astype(np.float64)
        msg = None
        if tuple(val.output.shape) != tuple(v.event):
            msg = "output shape %s, the reference model gives %s" % (tuple(val.output.shape), tuple(v.event))
        else:
            t = funsor.Tensor(arr, OrderedDict((n, funsor.Bint[v.sizes[n]]) for n in v.names), val.output.dtype)
            try:
                msg = oracle.compare(t, val)
            except oracle.Declined:
                stats["refmodel_silent"] += 1
                continue
        stats["refmodel_values"] += 1
        if msg:
            return {"stats": stats, "message": "%s (%s) under mode %s: reference model vs funsor: %s" % (out, op["op"], mode, msg), "root": out, "invariant": "value-differs-from-reference-model"}
    for op in prog:
        if op["op"] == "integrate" and op["out"] in env and op["a"] in env and op["b"] in env:
            try:
                out = execs.force_value(env[op["out"]], force)
            except Exception:  # noqa
                continue
            stats["reference_integrals"] = stats.get("reference_integrals", 0) + 1
            msg = refint.check_integral(env[op["a"]], env[op["b"]], out, list(op["vars"]), stats)
            if msg:
                return {"stats": stats, "message": "%s = Integrate(%s, %s, %s) under mode %s: %s" % (op["out"], op["a"], op["b"], op["vars"], mode, msg), "root": op["out"]}
            continue
        if op["op"] != "reduce_real" or op["fn"] != "logaddexp" or op["out"] not in env or op["a"] not in env:
            continue
        try:
            out = execs.force_value(env[op["out"]], force)
        except Exception:  # noqa
            continue
        stats["reference_marginals"] += 1
        msg = refint.check_marginal(env[op["a"]], out, list(op["vars"]), stats)
        if msg:
            return {"stats": stats, "message": "%s = reduce(logaddexp, %s, %s) under mode %s: %s" % (op["out"], op["a"], op["vars"], mode, msg), "root": op["out"]}
    return {"stats": stats, "message": None}


def enumerate_program(payload):
    from sim import oracle
    from sim.execs import compare_packed
    from sim.iso import fork_call

    prog, mode = payload["program"], payload["mode"]
    r = W.rng(payload.get("seed", 0), "c02", "ks")
    stats = {
        "runs": 0,
        "pass": 0,
        "declined": 0,
        "decline_fired": 0,
        "disable_fired": 0,
        "variant_errors": 0,
        "baseline_ok": 0,
        "firings": 0,
        "nontrivial_variants": 0,
    }
    violations = []
    rule_cov = {}  # rule -> {"fired":n,"nonid":n,"declined_verdict":n,"disabled_verdict":n}

    def fork(variant):
        stats["runs"] += 1
        res = fork_call(_run_variant, ((prog, mode, variant, payload.get("family")),), timeout=60)
        if res.get("status") != "ok":
            stats["variant_errors"] += 1
            return None
        return res["res"]

    base = fork({"record": True})
    out = {"violations": violations, "stats": stats, "rules": rule_cov, "r0": None, "pid": payload.get("pid"), "mode": mode}
    if base is None:
        return out
    out["r0"] = base["results"]
    out["K"] = base["K"]
    stats["firings"] = base["K"]
    for rname, (nf, nn) in base["rules"].items():
        rule_cov[rname] = {"fired": nf, "nonid": nn, "declined_verdict": 0, "disabled_verdict": 0}
    if any(v["status"] == "ok" for v in base["results"].values()):
        stats["baseline_ok"] = 1
    for nd in base["new_dependence"]:
        violations.append(
            {
                "invariant": "new-dependence",
                "message": "firing %d (%s, rule %s) on a %s returned a term with free inputs %s that the reflected term does not have"
                % (nd["k"], nd["interpretation"], nd["rule"], nd["term"], nd["extra_inputs"]),
                "rule": nd["rule"],
                "fingerprint": "new-dependence|" + nd["rule"].split(":")[0],
                "replay_variant": {"record": True},
            }
        )
    if payload.get("only") in (None, "reference"):
        ref = fork_call(_run_reference, ((prog, mode, payload.get("family")),), timeout=120)
        stats["runs"] += 1
        if ref.get("status") == "ok":
            for k, v in ref["res"]["stats"].items():
                stats[k] = stats.get(k, 0) + v
            if ref["res"]["message"]:
                violations.append(
                    {
                        "invariant": ref["res"].get("invariant", "marginal-differs-from-reference"),
                        "message": ref["res"]["message"],
                        "root": ref["res"]["root"],
                        "variant": "reference",
                        "fingerprint": ref["res"].get("invariant", "marginal-differs-from-reference"),
                    }
                )
        else:
            stats["variant_errors"] += 1
    if payload.get("only") == "reference":
        return out
    if not payload.get("enumerate", True) or not stats["baseline_ok"]:
        return out

    def check(variant, label, got):
        verdicts = 0
        for root, ref in base["results"].items():
            g = got["results"].get(root)
            if g is None:
                continue
            try:
                msg = compare_packed(ref, g)
            except oracle.Declined:
                stats["declined"] += 1
                continue
            verdicts += 1
            if msg is None:
                stats["pass"] += 1
            else:
                violations.append(
                    {
                        "invariant": "decline-changes-value" if "k" in variant else "disable-changes-value",
                        "message": "program root %s under mode %s: undisturbed run and run with %s disagree: %s"
                        % (root, mode, label, msg),
                        "rule": got.get("declined_rule") or variant.get("rule"),
                        "variant": variant,
                        "root": root,
                        "fingerprint": ("decline|" if "k" in variant else "disable|") + str(got.get("declined_rule") or variant.get("rule")).split(":")[0],
                    }
                )
        return verdicts

    if "only" in payload:  # replay form
        variants = [payload["only"]]
    else:
        K = base["K"]
        ks = list(range(1, K + 1))
        if K > payload.get("max_k", 40):
            ks = sorted(r.sample(ks, payload["max_k"]))
        variants = [{"k": k} for k in ks] + [{"rule": rn} for rn in sorted(base["rules"])]
    fired_by_k = {k: rn for k, _, rn in (base["fired"] or [])}
    for variant in variants:
        got = fork(variant)
        if got is None:
            continue
        if "k" in variant:
            if not got["declined"]:
                continue
            stats["decline_fired"] += 1
            label = "firing %d (%s) declined" % (variant["k"], got["declined_rule"])
        else:
            if not got["disabled"]:
                continue
            stats["disable_fired"] += 1
            label = "rule %s kept from firing on non-ground operands" % variant["rule"]
        stats["nontrivial_variants"] += 1
        n = check(variant, label, got)
        rn = got.get("declined_rule") or variant.get("rule")
        if n and rn in rule_cov:
            rule_cov[rn]["declined_verdict" if "k" in variant else "disabled_verdict"] += 1
        if violations:
            break
    return out


###############################################################################
# runner side


def cross_check(jobs, results):
    """Cross-world agreement of the undisturbed run."""
    from sim.execs import compare_packed
    from sim.oracle import Declined

    groups = {}
    for job, res in zip(jobs, results):
        if job["fn"] != "enumerate_program" or not res or res.get("status") != "ok":
            continue
        groups.setdefault(job["payload"]["pid"], []).append((job, res["res"]))
    out = []
    stats = CROSS_STATS
    for pid, members in sorted(groups.items()):
        if len(members) < 2:
            continue
        job0, res0 = members[0]
        if not res0.get("r0"):
            continue
        for job1, res1 in members[1:]:
            if not res1.get("r0"):
                continue
            for root, ref in res0["r0"].items():
                got = res1["r0"].get(root)
                if got is None:
                    continue
                try:
                    msg = compare_packed(ref, got)
                except Declined:
                    stats["declined"] += 1
                    continue
                stats["compared"] += 1
                if msg is not None:
                    j = dict(job1)
                    j["payload"] = dict(job1["payload"], enumerate=False, xworld={"other_world": job0["world"], "root": root, "ref": ref})
                    j["fn"] = "xworld_replay"
                    out.append(
                        (
                            j,
                            {
                                "invariant": "cross-world-disagreement",
                                "message": "program %s root %s mode %s: hash worlds %s and %s disagree: %s"
                                % (pid, root, job0["payload"]["mode"], job0["world"]["index"], job1["world"]["index"], msg),
                                "fingerprint": "cross-world|" + _xw_signature(job0["payload"]["program"]),
                            },
                        )
                    )
                    break
    return out


CROSS_STATS = {"compared": 0, "declined": 0}


def _xw_signature(prog):
    """Coarse cause signature for cross-world disagreements (used only to group
    reports and to key known findings)."""
    sig = set()
    for op in prog:
        if op["op"] == "reduce":
            sig.add("reduce:" + op["fn"])
    return ",".join(sorted(sig))


def xworld_replay(payload):
    """Replay form of a cross-world disagreement: evaluate in this world and
    compare with the recorded value from the other world."""
    from sim.execs import compare_packed
    from sim.iso import fork_call
    from sim.oracle import Declined

    res = fork_call(_run_variant, ((payload["program"], payload["mode"], {"record": False}, payload.get("family")),), timeout=60)
    violations = []
    if res.get("status") == "ok":
        xw = payload["xworld"]
        got = res["res"]["results"].get(xw["root"])
        try:
            msg = compare_packed(xw["ref"], got) if got else None
        except Declined:
            msg = None
        if msg is not None:
            violations.append(
                {
                    "invariant": "cross-world-disagreement",
                    "message": "root %s mode %s: this world disagrees with the value recorded in world %s: %s"
                    % (xw["root"], payload["mode"], xw["other_world"].get("index"), msg),
                }
            )
    return {"violations": violations, "stats": {}}


def summarize(jobs, results, tier):
    tot = {}
    rules = {}
    programs = 0
    enumerated = 0
    samples = []
    nontrivial = 0
    modes = {}
    for job, res in zip(jobs, results):
        if job["fn"] != "enumerate_program" or not res or res.get("status") != "ok":
            continue
        rr = res["res"]
        for k, v in rr["stats"].items():
            tot[k] = tot.get(k, 0) + v
        if job["payload"].get("enumerate"):
            enumerated += 1
            nontrivial += rr["stats"]["nontrivial_variants"]
            modes[rr["mode"]] = modes.get(rr["mode"], 0) + 1
            for rn, c in rr["rules"].items():
                d = rules.setdefault(rn, {"fired": 0, "nonid": 0, "declined_verdict": 0, "disabled_verdict": 0})
                for k in d:
                    d[k] += c[k]
            if len(samples) < 3 and rr.get("K", 0) > 3:
                from sim.program import describe  # noqa

                samples.append({"mode": rr["mode"], "K": rr["K"], "program": _brief(job["payload"]["program"])})
    fired = sorted(rules)
    nonid = sorted(r for r, c in rules.items() if c["nonid"])
    verdict = sorted(r for r, c in rules.items() if c["declined_verdict"] or c["disabled_verdict"])
    return {
        "evaluations": tot.get("runs", 0),
        "distinct_nontrivial": nontrivial,
        "rule": "one evaluation = one execution of a generated program (3-10 constructor calls over 2-4 leaf tensors, four "
        "semiring families) in a fresh fork under one interpretation setting and one fault: none (R0), firing k declined "
        "(every k<=K, or a seeded %d of them), or one rule function disabled on non-ground operands (every rule that "
        "fired). Non-trivial = the fault actually fired (the firing existed and was declined / the rule was kept from "
        "firing at least once); distinct by construction (program, setting, fault)." % (40 if tier == "quick" else 250),
        "samples": samples,
        "exhaustive": False,
        "programs_enumerated": enumerated,
        "programs_by_setting": modes,
        "firings_in_undisturbed_runs": tot.get("firings", 0),
        "faults_fired_by_kind": {"DECLINE": tot.get("decline_fired", 0), "DISABLE_IF": tot.get("disable_fired", 0)},
        "verdicts": {"PASS": tot.get("pass", 0), "DECLINED": tot.get("declined", 0), "variant_fork_errors": tot.get("variant_errors", 0)},
        "reference_model_marginals": {
            "marginals_checked": tot.get("reference_marginals", 0),
            "integrals_checked": tot.get("reference_integrals", 0),
            "tensor_values_compared_with_dense_model": tot.get("refmodel_values", 0),
            "values_outside_the_dense_model": tot.get("refmodel_silent", 0),
            "points_compared_with_closed_form": tot.get("reference_points", 0),
            "points_where_model_is_silent": tot.get("reference_silent", 0),
            "points_where_funsor_raised": tot.get("reference_errors", 0),
        },
        "cross_world": dict(CROSS_STATS),
        "rules_fired": len(fired),
        "rules_fired_nonidentity": len(nonid),
        "rules_with_decline_or_disable_verdict": len(verdict),
        "rule_table": {r: rules[r] for r in fired},
        "components": {
            "real": ["funsor (working tree)", "numpy", "multipledispatch", "opt_einsum"],
            "stubbed": ["object hashes of funsors/ops (seeded hook)", "automatic GC (disabled)"],
        },
    }


def _brief(prog):
    out = []
    for op in prog:
        d = {k: v for k, v in op.items() if k != "data"}
        out.append(d)
    return out


def minimize(job, violation, test):
    """Dependency-aware ddmin over operations: prune to the disagreeing root,
    then drop operations (and their dependents) while the same invariant
    still fails; every candidate is re-enumerated from scratch in a fresh
    world host."""
    from sim import progutil as P

    if job["fn"] != "enumerate_program":
        return job, violation
    inv = violation["invariant"]
    budget = [40]

    def attempt(prog, only=None):
        if budget[0] <= 0 or not prog:
            return None
        budget[0] -= 1
        payload = dict(job["payload"], program=prog, enumerate=True)
        payload.pop("only", None)
        if only is not None:
            payload["only"] = only
        j = dict(job, payload=payload)
        for v in test(j):
            if v.get("invariant") == inv:
                return j, v
        return None

    prog = job["payload"]["program"]
    best = None
    root = violation.get("root")
    if root:
        cand = P.prune(prog, [root])
        got = attempt(cand)
        if got:
            prog, best = cand, got
    improved = True
    while improved and budget[0] > 0:
        improved = False
        for idx in range(len(prog) - 1, -1, -1):
            cand = P.drop_op(prog, idx)
            if len(cand) == len(prog) or not cand:
                continue
            got = attempt(cand)
            if got:
                prog, best = cand, got
                improved = True
                break
    if best is None:
        return job, violation
    j, v = best
    # pin the single fault that reproduces it
    if v.get("variant"):
        pinned = attempt(prog, only=v["variant"])
        if pinned:
            return pinned
    return j, v
