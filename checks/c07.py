"""C07 - hash-consing: structural equality is object identity, held weakly.

Engine `intern`: seeded histories of construct / drop / collect / re-allocate /
pickle round trip / reinterpret / touch / injected exception / line-level
collection, run against a reference map `canonical key -> object`.  After every
event the invariants I1-I5 of DESIGN.md section 6 (C07) are evaluated over
everything that is alive in any intern table."""

import json

from sim import world as W

PROPERTY = "C07"
LEVEL = "exploration"
BUDGET = {"quick": 170, "thorough": 3000}
ASSUMPTIONS = [
    "equality of constructor arguments is Python equality for hashable atoms, identity for arrays and for funsors (whose __eq__ is overloaded)",
    "the automatic collector is disabled; collections happen only as scheduled events (refcount frees stay immediate)",
    "a constructor call that raises because of an injected collection or exception is an observation, not a violation "
    "(the property speaks about which object is returned, not about completion)",
]

INTERPS = ["reflect", "reflect", "lazy", "normalize", "eager", "memoize"]
UN_OPS = ["neg", "exp", "abs"]
BIN_OPS = ["add", "mul", "sub", "max"]
RED_OPS = ["add", "logaddexp", "max"]
NAMES = ["i", "j", "k"]

# parametrised ops: [class name, positional parameters]; slices are written ["slice", start, stop, step]
OP_SPECS = [
    ["GetitemOp", [0]],
    ["GetitemOp", [1]],
    ["ReshapeOp", [[2, 3]]],
    ["ReshapeOp", [[3, 2]]],
    ["SumOp", [0, False]],
    ["SumOp", [0, True]],
    ["SumOp", [None, False]],
    ["ProdOp", [0, False]],
    ["LogsumexpOp", [-1, False]],
    ["LogsumexpOp", [-1, True]],
    ["ArgmaxOp", [0, False]],
    ["ArgmaxOp", [1, False]],
    ["GetsliceOp", [["slice", 0, 6, None]]],
    ["GetsliceOp", [["slice", 0, 6, 2]]],
    ["GetsliceOp", [["slice", None, None, None]]],
    ["GetsliceOp", [["slice", None, None, 2]]],
    ["GetsliceOp", [["slice", 1, 6, 2]]],
    ["GetsliceOp", [["tuple", ["slice", 0, 2, None], 1]]],
    ["GetsliceOp", [["tuple", ["slice", 0, 2, None], 0]]],
    ["AstypeOp", ["float32"]],
    ["AstypeOp", ["float64"]],
    ["PermuteOp", [[1, 0]]],
    ["PermuteOp", [[0, 1]]],
    ["ClampOp", [0.0, 1.0]],
    ["ClampOp", [0.0, 2.0]],
    ["CatOp", [0]],
    ["CatOp", [1]],
    ["StackOp", [0]],
    ["StackOp", [1]],
    ["TriangularSolveOp", [False, True]],
    ["TriangularSolveOp", [True, False]],
    ["StdOp", [None, 0, False]],
    ["StdOp", [None, 1, False]],
    # parameters fixed by keyword while an earlier one stays open: [class, positional, keywords]
    ["NewFullOp", [], {"value": 1.0}],
    ["NewFullOp", [], {"value": 2.0}],
    ["DiagonalOp", [], {"dim2": 1}],
    ["DiagonalOp", [], {"dim2": 2}],
    ["TransposeOp", [], {"axis2": 1}],
    ["TransposeOp", [], {"axis2": 0}],
    # wrapped callables: "@shift" / "@scale" name module-level functions (the same object every time)
    ["WrappedTransformOp", [], {"fn": "@shift"}],
    ["WrappedTransformOp", [], {"fn": "@shift", "validate_args": False}],
    ["WrappedTransformOp", [], {"fn": "@shift", "validate_args": True}],
    ["WrappedTransformOp", [], {"fn": "@scale", "validate_args": False}],
]


def _shift(x):  # plain callables standing in for backend transforms
    return x + 1.0


def _scale(x):
    return x * 2.0


_CALLABLES = {"@shift": _shift, "@scale": _scale}


def _op_param(x):
    if isinstance(x, list):
        if x and x[0] == "slice":
            return slice(x[1], x[2], x[3])
        if x and x[0] == "tuple":
            return tuple(_op_param(v) for v in x[1:])
        return tuple(_op_param(v) for v in x)
    return x


###############################################################################
# history generation (pure)


def gen_recipe(r):
    c = r.random()
    h = lambda: r.randrange(64)  # handle reference, taken modulo #live  # noqa: E731
    if c < 0.10:
        return ["var", r.choice(NAMES + ["x"]), r.choice([["bint", 2], ["bint", 3], ["real"], ["reals", [2]], ["bint_shaped", 2, [3]], ["bint_shaped", 3, [2]]])]
    if c < 0.18:
        return ["num", r.choice([1, 1.0, True, 0, 0.5, 2, 2.0, ["np", "float64", 0.5], ["np", "float64", 2.0], ["np", "int64", 2], ["np", "float32", 0.5]])]
    if c < 0.36:
        return ["tensor", r.randrange(3), r.choice([["i"], ["i", "j"], ["j", "i"], []]), r.choice(["Tensor", "Tensor", "to_funsor", "bint"])]
    if c < 0.48:
        return ["binary", r.choice(BIN_OPS), h(), h()]
    if c < 0.55:
        return ["unary", r.choice(UN_OPS), h()]
    if c < 0.63:
        return ["reduce", r.choice(RED_OPS), h(), r.choice(NAMES)]
    if c < 0.67:
        return ["subs", h(), r.choice(NAMES), r.choice([0, 1, "j", "k", "q"])]
    if c < 0.70:
        n1, n2 = r.sample(NAMES, 2)
        return ["subs2", h(), [[n1, r.choice(["a", "b", 0])], [n2, r.choice(["c", "d", 1])]], r.random() < 0.5]
    if c < 0.74:
        return ["lambda", r.choice(NAMES), h()]
    if c < 0.78:
        return ["stack", r.choice(["s", "t"]), [h() for _ in range(r.randint(1, 3))]]
    if c < 0.81:
        return ["cat", r.choice(NAMES), [h() for _ in range(r.randint(1, 2))]]
    if c < 0.84:
        return ["delta", r.choice(["x", "y"]), h(), h()]
    if c < 0.88:
        return ["domain", r.choice([["bint", 2], ["bint", 5], ["reals", [2, 2]], ["reals", [3]], ["real"], ["product", [["bint", 2], ["real"]]],
                                    ["bint_shaped", 2, [3]], ["bint_shaped", 3, [2]], ["bint_shaped", 2, [2, 3]], ["array", 2, [3]], ["array", "real", [3, 2]]])]
    if c < 0.94:
        return ["op", r.choice(OP_SPECS)]
    if c < 0.97:
        return ["ptype", r.choice(["Tensor", "Variable", "Binary", "Number"])]
    return ["slice", r.choice(NAMES), r.randrange(2), 2 + r.randrange(2), 1, 4]


def gen_history(r, maxlen):
    hist = []
    n = r.randint(3, maxlen)
    for _ in range(n):
        c = r.random()
        if c < 0.50:
            hist.append({"e": "construct", "recipe": gen_recipe(r), "interp": r.choice(INTERPS)})
        elif c < 0.62:
            hist.append({"e": "drop", "h": r.randrange(64)})
        elif c < 0.70:
            hist.append({"e": "gc", "gen": r.choice([0, 1, 2, 2])})
        elif c < 0.76:
            hist.append({"e": "realloc", "slot": r.randrange(3)})
        elif c < 0.82:
            hist.append({"e": "pickle", "h": r.randrange(64), "interp": r.choice(["reflect", "reflect", "eager", "lazy"])})
        elif c < 0.87:
            hist.append({"e": "reinterpret", "h": r.randrange(64)})
        elif c < 0.92:
            hist.append({"e": "touch", "h": r.randrange(64)})
        elif c < 0.96:
            hist.append({"e": "exc_construct", "recipe": gen_recipe(r), "interp": r.choice(INTERPS), "n": r.randint(1, 60), "exc": r.choice(["MemoryError", "RecursionError", "ValueError"])})
        else:
            hist.append({"e": "gc_at_line", "recipe": gen_recipe(r), "interp": r.choice(["reflect", "lazy"]), "hit": r.randint(1, 25)})
    return hist


# reduced alphabet for the exhaustive enumeration of short histories
SHORT_EVENTS = (
    [{"e": "construct", "recipe": rec, "interp": interp}
     for rec in (["var", "i", ["bint", 2]], ["tensor", 0, ["i", "j"]], ["binary", "add", 0, 1], ["reduce", "add", 0, "i"], ["unary", "neg", 1], ["op", ["GetsliceOp", [["slice", 0, 6, 2]]]], ["domain", ["reals", [2, 2]]])
     for interp in ("reflect", "lazy")]
    + [{"e": "drop", "h": 0}, {"e": "drop", "h": 1}, {"e": "gc", "gen": 2}, {"e": "realloc", "slot": 0},
       {"e": "pickle", "h": 0, "interp": "reflect"}, {"e": "reinterpret", "h": 1}, {"e": "touch", "h": 0}]
)


def plan(seed, tier):
    nworlds = 8 if tier == "quick" else 16
    worlds = [W.make_world(seed, i) for i in range(nworlds)]
    for i, w in enumerate(worlds):
        w["typecheck"] = (i // 2) % 2
    njobs = 64 if tier == "quick" else 640
    per = 150 if tier == "quick" else 600
    jobs = []
    # every history of length <= 2 (quick) / <= 3 (thorough) over the reduced alphabet, plus a seeded sample one longer
    n_ev = len(SHORT_EVENTS)
    lengths = [1, 2] if tier == "quick" else [1, 2, 3]
    total = sum(n_ev**k for k in lengths)
    nchunks = 8 if tier == "quick" else 64
    for c in range(nchunks):
        jobs.append(
            {
                "world": worlds[c % nworlds],
                "fn": "run_short_histories",
                "payload": {"lengths": lengths, "chunk": c, "nchunks": nchunks, "extra": 60 if tier == "quick" else 400, "seed": "%s/c07x/%d" % (seed, c)},
                "timeout": 1200,
            }
        )
    nrestart = 8 if tier == "quick" else 64
    for j in range(nrestart):
        jobs.append(
            {
                "world": worlds[j % nworlds],
                "fn": "run_restart_histories",
                "payload": {"seed": "%s/c07r/%d" % (seed, j), "count": 3 if tier == "quick" else 12, "maxlen": 14},
                "timeout": 1200,
            }
        )
    for j in range(njobs):
        jobs.append(
            {
                "world": worlds[j % nworlds],
                "fn": "run_histories",
                "payload": {"seed": "%s/c07/%d" % (seed, j), "count": per, "maxlen": 30 if j % 4 else 8},
                "timeout": 1200,
            }
        )
    return jobs


###############################################################################
# child side


class Violation(Exception):
    def __init__(self, invariant, message):
        super().__init__(message)
        self.invariant = invariant
        self.message = message


def _tables():
    """All intern tables: (label, mapping)."""
    import funsor
    from funsor.domains import ArrayType, ProductDomain
    from funsor.ops.op import Op
    from funsor.terms import Funsor

    out = []

    def walk(cls):
        yield cls
        for sub in cls.__subclasses__():
            yield from walk(sub)

    seen = set()
    for cls in walk(Funsor):
        if getattr(cls, "__args__", ()):  # parametrised subtypes share the origin's table
            continue
        if id(cls) in seen:
            continue
        seen.add(id(cls))
        if "_cons_cache" in cls.__dict__:
            out.append(("cons:" + cls.__name__, cls._cons_cache))
    out.append(("domain:ArrayType", ArrayType._type_cache))
    out.append(("domain:Product", ProductDomain._type_cache))
    seen = set()
    for cls in walk(Op):
        if id(cls) in seen:
            continue
        seen.add(id(cls))
        if "_instance_cache" in cls.__dict__:
            out.append(("op:" + cls.__name__, cls._instance_cache))
    return out


def _table_sizes():
    return {label: len(t) for label, t in _tables()}


def _key_of(cls, args):
    """The model's notion of 'constructed from equal arguments'."""
    import numpy as np

    import funsor

    def k(x):
        if isinstance(x, funsor.terms.Funsor):
            return ("f", id(x))
        if isinstance(x, np.ndarray):
            return ("a", id(x))
        if isinstance(x, tuple):
            return ("t",) + tuple(k(v) for v in x)
        if isinstance(x, frozenset):
            return ("s", frozenset(k(v) for v in x))
        try:
            hash(x)
            return x
        except TypeError:
            return ("u", id(x))

    return (funsor.typing.get_origin(cls),) + tuple(k(a) for a in args)


def _has_array(x, depth=0):
    import numpy as np

    import funsor

    if isinstance(x, np.ndarray):
        return True
    if isinstance(x, funsor.terms.Funsor):
        return any(_has_array(v, depth + 1) for v in x._ast_values)
    if isinstance(x, (tuple, frozenset)):
        return any(_has_array(v, depth + 1) for v in x)
    if isinstance(x, dict):
        return any(_has_array(v, depth + 1) for v in x.values())
    return False


class Sim:
    def __init__(self):
        import numpy as np

        import funsor

        from sim import seams

        self.np = np
        self.f = funsor
        self.seams = seams
        self.slots = [self._new_array(k, 0) for k in range(3)]
        self.gen = [0, 0, 0]
        self.handles = []  # [handle_no, obj, kind]
        self.next_handle = 0
        self.log = []
        self.stats = {
            "events": 0,
            "constructs": 0,
            "construct_errors": 0,
            "identity_hits": 0,
            "I1_objects_checked": 0,
            "faults": {},
            "id_recycled": 0,
            "observed_keyerror_window": 0,
            "pickle_identical": 0,
            "pickle_distinct": 0,
            "resurrections": 0,
        }
        self.requests = {}  # (interp, request key) -> weakref to result
        self.inj = None
        self.lines = None
        self.soft = []  # violations that do not stop the history

    def _new_array(self, k, g):
        return self.np.arange(6.0).reshape(2, 3) * (k + 1) + g

    def count(self, kind):
        self.stats["faults"][kind] = self.stats["faults"].get(kind, 0) + 1

    def handle(self, ref):
        if not self.handles:
            return None
        return self.handles[ref % len(self.handles)]

    # -- building ---------------------------------------------------------
    def domain(self, spec):
        f = self.f
        if spec[0] == "bint":
            return f.Bint[spec[1]]
        if spec[0] == "real":
            return f.Real
        if spec[0] == "reals":
            return f.Reals[tuple(spec[1])]
        if spec[0] == "bint_shaped":  # integers below spec[1], with an event shape
            return f.Bint[(spec[1],) + tuple(spec[2])]
        if spec[0] == "array":
            return f.domains.Array[spec[1], tuple(spec[2])]
        if spec[0] == "product":
            return f.domains.Product[tuple(self.domain(s) for s in spec[1])]
        raise KeyError(spec)

    def build(self, recipe):
        """Returns (callable doing the construction, description of the request
        for the model: (cls, args) or None)."""
        from collections import OrderedDict

        f = self.f
        ops = f.ops
        t = recipe[0]
        fh = lambda ref: self._funsor_handle(ref)  # noqa: E731
        if t == "var":
            dom = self.domain(recipe[2])
            return (lambda: f.Variable(recipe[1], dom)), (f.Variable, (recipe[1], dom))
        if t == "num":
            v = recipe[1]
            if isinstance(v, list):  # a numpy scalar: equal to the python number, and must intern with it
                v = getattr(self.np, v[1])(v[2])
            return (lambda: f.Number(v)), None
        if t == "tensor":
            arr = self.slots[recipe[1]]
            names = recipe[2]
            shape = {0: (), 1: (2,), 2: (2, 3)}[len(names)]
            if names == ["j", "i"]:
                inputs = OrderedDict(j=f.Bint[2], i=f.Bint[3])
            else:
                inputs = OrderedDict(zip(names, [f.Bint[2], f.Bint[3]]))
            how = recipe[3] if len(recipe) > 3 else "Tensor"
            if how == "to_funsor" and names:
                # the conversion API with dim_to_name: the same request as Tensor(arr, inputs)
                d2n = {i - len(names): n for i, n in enumerate(inputs)}
                out_dom = f.Reals[tuple(arr.shape[len(names) :])]
                return (lambda: f.to_funsor(arr, out_dom, d2n)), ("tensor", arr, tuple(inputs.items()))
            if how == "bint":
                # a bounded-integer Tensor over the (float) slot array: interned on (array, inputs, dtype) like any other
                return (lambda: f.Tensor(arr, inputs, 7)), ("tensor", arr, tuple(inputs.items()) + (("dtype", 7),))
            return (lambda: f.Tensor(arr, inputs)), ("tensor", arr, tuple(inputs.items()))
        if t == "binary":
            a, b = fh(recipe[2]), fh(recipe[3])
            op = getattr(ops, recipe[1])
            return (lambda: f.terms.Binary(op, a, b)), (f.terms.Binary, (op, a, b))
        if t == "unary":
            a = fh(recipe[2])
            op = getattr(ops, recipe[1])
            return (lambda: f.terms.Unary(op, a)), (f.terms.Unary, (op, a))
        if t == "reduce":
            a = fh(recipe[2])
            op = getattr(ops, recipe[1])
            name = recipe[3]
            dom = a.inputs.get(name, f.Bint[2])
            rv = frozenset([f.Variable(name, dom)])
            return (lambda: f.terms.Reduce(op, a, rv)), None
        if t == "subs":
            a = fh(recipe[1])
            name, val = recipe[2], recipe[3]
            return (lambda: a(**{name: val})), None
        if t == "subs2":
            # two names at once, spelled in either keyword order: the same request
            a = fh(recipe[1])
            pairs = [tuple(p) for p in recipe[2]]
            kw = dict(pairs if not recipe[3] else reversed(pairs))
            return (lambda: a(**kw)), ("subs2", id(a), frozenset(pairs))
        if t == "lambda":
            a = fh(recipe[2])
            name = recipe[1]
            dom = a.inputs.get(name, f.Bint[2])
            return (lambda: f.terms.Lambda(f.Variable(name, dom), a)), None
        if t == "stack":
            parts = tuple(fh(h) for h in recipe[2])
            return (lambda: f.terms.Stack(recipe[1], parts)), (f.terms.Stack, (recipe[1], parts))
        if t == "cat":
            parts = tuple(fh(h) for h in recipe[2])
            return (lambda: f.terms.Cat(recipe[1], parts)), None
        if t == "delta":
            a, b = fh(recipe[2]), fh(recipe[3])
            return (lambda: f.delta.Delta(recipe[1], a, b)), None
        if t == "domain":
            return (lambda: self.domain(recipe[1])), ("domain", json.dumps(recipe[1]))
        if t == "op":
            cname, params = recipe[1][:2]
            kw = recipe[1][2] if len(recipe[1]) > 2 else {}
            cls = getattr(ops, cname)
            args = tuple(_op_param(p) for p in params)
            kw = {k: _CALLABLES.get(v, v) if isinstance(v, str) else v for k, v in kw.items()}
            reqkey = dict(recipe[1][2]) if len(recipe[1]) > 2 else {}
            if cname == "WrappedTransformOp":
                reqkey.setdefault("validate_args", True)  # the default, spelled out: an equal request
            return (lambda: cls(*args, **kw)), ("op", json.dumps([cname, params, reqkey], sort_keys=True))
        if t == "ptype":
            name = recipe[1]
            if name == "Tensor":
                return (lambda: f.Tensor[self.np.ndarray, tuple, str]), ("ptype", name)
            if name == "Variable":
                return (lambda: f.Variable[str, f.domains.BintType]), ("ptype", name)
            if name == "Binary":
                return (lambda: f.terms.Binary[ops.AddOp, f.Tensor, f.Tensor]), ("ptype", name)
            return (lambda: f.Number[float, str]), ("ptype", name)
        if t == "slice":
            return (lambda: f.terms.Slice(recipe[1], recipe[2], recipe[3], recipe[4], recipe[5])), (
                f.terms.Slice,
                (recipe[1], recipe[2], min(recipe[5], max(recipe[2], recipe[3])), recipe[4], recipe[5]),
            )
        raise KeyError(t)

    def _funsor_handle(self, ref):
        cands = [h for h in self.handles if isinstance(h[1], self.f.terms.Funsor)]
        if not cands:
            raise LookupError("no funsor handle")
        return cands[ref % len(cands)][1]

    def interp(self, name):
        I = self.f.interpretations
        if name == "memoize":
            return _MemoLazy(I)
        return getattr(I, name)

    # -- events -----------------------------------------------------------
    def do_construct(self, ev, inject=None):
        import weakref

        f = self.f
        self.stats["constructs"] += 1
        try:
            fn, req = self.build(ev["recipe"])
        except LookupError:
            return None
        interp = ev["interp"]
        leaf = ev["recipe"][0] in ("var", "num", "tensor", "domain", "op", "ptype", "slice")
        if interp == "eager" and not leaf:
            interp = "reflect"
        reqkey = None
        if req is not None:
            if req[0] == "tensor":
                reqkey = ("tensor", id(req[1]), req[2])
            elif isinstance(req[0], str):
                reqkey = req
            else:
                reqkey = _key_of(req[0], req[1])
        prior = None
        if reqkey is not None:
            wr = self.requests.get((interp if not leaf else "leaf", reqkey))
            prior = wr() if wr is not None else None
        try:
            if inject is not None:
                inject.__enter__()
            try:
                with self.interp(interp):
                    obj = fn()
            finally:
                if inject is not None:
                    inject.__exit__(None, None, None)
        except KeyError as e:
            self.stats["construct_errors"] += 1
            if inject is not None and getattr(inject, "collected", 0):
                self.stats["observed_keyerror_window"] += 1
            return None
        except Exception as e:  # noqa
            self.stats["construct_errors"] += 1
            return None
        # I2: determinism of construction
        if prior is not None:
            self.stats["identity_hits"] += 1
            if obj is not prior:
                raise Violation(
                    "I2-construct-not-identical",
                    "constructing %s under %s again, while the first result is alive, returned a different object (%r vs %r)"
                    % (json.dumps(ev["recipe"]), interp, _brief(obj), _brief(prior)),
                )
        if ev["recipe"][0] == "subs2" and interp in ("reflect", "lazy") and isinstance(obj, f.terms.Funsor):
            # the same request spelled in the other keyword order, while the first result is alive
            rec = list(ev["recipe"])
            rec[3] = not rec[3]
            try:
                fn2, _ = self.build(rec)
                with self.interp(interp):
                    obj2 = fn2()
            except Exception:  # noqa
                obj2 = obj
            # only a substitution that stayed symbolic is an interned term; one that was carried out
            # produced a new array, and arrays are compared by identity
            symbolic = isinstance(obj, f.terms.Subs) and isinstance(obj2, f.terms.Subs)
            if symbolic:
                self.stats["identity_hits"] += 1
            if symbolic and obj2 is not obj:
                raise Violation(
                    "I2-construct-not-identical",
                    "a substitution into two inputs %s under %s gave two live objects depending on the order in which the keywords are written (%r vs %r)"
                    % (json.dumps(ev["recipe"][2]), interp, _brief(obj), _brief(obj2)),
                )
        # I3: no stale object
        if ev["recipe"][0] == "tensor" and isinstance(obj, f.Tensor):
            arr = self.slots[ev["recipe"][1]]
            if obj.data is not arr:
                raise Violation(
                    "I3-stale-object",
                    "Tensor(slot %d array) returned a tensor whose data is a different array object (recycled id=%s)"
                    % (ev["recipe"][1], id(arr) == id(obj.data)),
                )
            if tuple(obj.inputs.items()) != tuple(x for x in req[2] if x[0] != "dtype"):
                raise Violation("I3-stale-object", "Tensor built with inputs %r has inputs %r" % (req[2], tuple(obj.inputs.items())))
        if ev["recipe"][0] == "op":
            cname, params = ev["recipe"][1][:2]
            kw = ev["recipe"][1][2] if len(ev["recipe"][1]) > 2 else {}
            kw = {k: _CALLABLES.get(v, v) if isinstance(v, str) else v for k, v in kw.items()}
            want = tuple(_op_param(p) for p in params) + tuple(kw.values())
            got = tuple(obj.defaults.values())[: len(params)] + tuple(obj.defaults.get(k) for k in kw)
            if type(obj).__name__ != cname or got != want:
                raise Violation(
                    "I3-stale-object",
                    "ops.%s%r returned an op of class %s with parameters %r" % (cname, want, type(obj).__name__, got),
                )
        if ev["recipe"][0] == "var" and (obj.name != ev["recipe"][1] or obj.output is not req[1][1]):
            raise Violation("I3-stale-object", "Variable(%r, %r) returned %r" % (ev["recipe"][1], req[1][1], obj))
        if reqkey is not None:
            try:
                self.requests[(interp if not leaf else "leaf", reqkey)] = weakref.ref(obj)
            except TypeError:
                pass
        self.next_handle += 1
        self.handles.append([self.next_handle, obj, ev["recipe"][0]])
        if len(self.handles) > 12:
            del self.handles[0]
        return obj

    def step(self, ev):
        import gc
        import pickle

        f = self.f
        e = ev["e"]
        self.stats["events"] += 1
        if e == "construct":
            obj = self.do_construct(ev)
            self.log.append(["construct", ev["recipe"][0], ev["interp"], _brief(obj)])
        elif e == "drop":
            h = self.handle(ev["h"])
            if h is not None:
                self.handles.remove(h)
                self.count("DROP")
            self.log.append(["drop", h[0] if h else None])
        elif e == "gc":
            n = gc.collect(ev["gen"])
            self.count("GC")
            self.log.append(["gc", ev["gen"], n])
        elif e == "realloc":
            k = ev["slot"]
            old_id = id(self.slots[k])
            self.gen[k] += 1
            self.slots[k] = None
            self.slots[k] = self._new_array(k, self.gen[k])
            if id(self.slots[k]) == old_id:
                self.stats["id_recycled"] += 1
            self.count("REALLOC")
            self.log.append(["realloc", k, id(self.slots[k]) == old_id])
        elif e == "pickle":
            h = self.handle(ev["h"])
            if h is None:
                return
            obj = h[1]
            try:
                data = pickle.dumps(obj)
                with self.interp(ev["interp"]):
                    back = pickle.loads(data)
            except Exception as ex:  # noqa
                self.log.append(["pickle", h[0], "error", type(ex).__name__])
                return
            self.count("PICKLE")
            if ev["interp"] == "reflect" and not _has_array(obj) and (isinstance(obj, f.terms.Funsor) or isinstance(obj, (f.ops.Op, type))):
                if back is not obj:
                    raise Violation(
                        "I5-pickle-roundtrip",
                        "pickle round trip of the array-free live object %s returned a different object" % _brief(obj),
                    )
                self.stats["pickle_identical"] += 1
            else:
                self.stats["pickle_distinct"] += 1
            self.next_handle += 1
            self.handles.append([self.next_handle, back, "pickled"])
            self.log.append(["pickle", h[0], back is obj])
        elif e == "reinterpret":
            h = self.handle(ev["h"])
            if h is None or not isinstance(h[1], f.terms.Funsor):
                return
            with f.interpretations.reflect:
                back = f.reinterpret(h[1])
            self.count("REINTERPRET")
            if back is not h[1]:
                cname = f.typing.get_origin(type(h[1])).__name__
                why = _reinterpret_difference(h[1], back)
                self.soft.append(
                    {
                        "invariant": "I5-reinterpret-reflect",
                        "message": "reinterpret under reflect of %s returned a different object %s (%s)" % (_brief(h[1]), _brief(back), why),
                        "fingerprint": "I5-reinterpret-reflect|%s" % why,
                        "at_event": self.stats["events"],
                    }
                )
            self.log.append(["reinterpret", h[0]])
        elif e == "touch":
            h = self.handle(ev["h"])
            if h is None or not isinstance(h[1], f.terms.Funsor):
                return
            obj = h[1]
            try:
                obj.input_vars
                repr(obj)
                hash(obj)
                obj.__annotations__
            except Exception:  # noqa
                pass
            self.count("TOUCH")
            self.log.append(["touch", h[0]])
        elif e == "exc_construct":
            inj = self.inj
            inj.arm(ev["n"], ev["exc"])

            class W_:
                def __enter__(s):
                    inj.open = True

                def __exit__(s, *a):
                    inj.open = False
                    if inj.fired is not None:
                        self.count("EXC_CALL")
                    inj.disarm()

            obj = self.do_construct(ev, inject=W_())
            self.log.append(["exc_construct", ev["recipe"][0], ev["interp"], ev["n"], _brief(obj)])
        elif e == "gc_at_line":
            lines = self.lines
            lines.hits.clear()
            total = [0]
            sim = self

            class L_:
                collected = 0

                def __enter__(s):
                    def action(name, line, n):
                        total[0] += 1
                        if total[0] == ev["hit"]:
                            gc.collect()
                            s.collected += 1
                            sim.count("GC_AT_LINE")

                    lines.action = action
                    lines.open = True

                def __exit__(s, *a):
                    lines.open = False
                    lines.action = None

            obj = self.do_construct(ev, inject=L_())
            self.log.append(["gc_at_line", ev["recipe"][0], ev["hit"], _brief(obj)])

    # -- invariants ---------------------------------------------------------
    def check_I1(self):
        """No two distinct live interned objects were constructed from equal arguments."""
        f = self.f
        for label, table in _tables():
            if not label.startswith("cons:"):
                continue
            seen = {}
            for obj in list(table.values()):
                self.stats["I1_objects_checked"] += 1
                try:
                    key = _key_of(type(obj), obj._ast_values)
                except Exception:  # noqa
                    continue
                other = seen.setdefault(key, obj)
                if other is not obj:
                    raise Violation(
                        "I1-duplicate-live-term",
                        "two distinct live %s objects have equal constructor arguments: %s" % (label, _brief(obj)),
                    )
        # held handles that are funsors must be the table's representative of their arguments
        for hno, obj, kind in self.handles:
            if isinstance(obj, f.terms.Funsor):
                cls = f.typing.get_origin(type(obj))
                key = f.interpretations.reflect.make_hash_key(cls, *obj._ast_values)
                rep = cls._cons_cache.get(key)
                if rep is not None and rep is not obj:
                    raise Violation(
                        "I1-duplicate-live-term",
                        "handle %d (%s) is alive but the intern table maps its arguments to a different live object" % (hno, _brief(obj)),
                    )

    def quiesce(self, baseline):
        import gc
        import sys

        self.handles.clear()
        self.requests.clear()
        self.slots = [None, None, None]
        for _ in range(3):
            gc.collect()
        sizes = _table_sizes()
        grown = {k: (baseline.get(k, 0), v) for k, v in sizes.items() if v > baseline.get(k, 0) and not k.startswith("ptype")}
        if grown:
            # name a survivor and who holds it
            detail = ""
            for label, table in _tables():
                if label in grown:
                    for key, obj in list(table.items()):
                        refs = [type(r).__name__ for r in gc.get_referrers(obj) if r is not table.data][:6] if hasattr(table, "data") else []
                        detail = " e.g. %s key=%r held by %s" % (_brief(obj), str(key)[:80], refs)
                        break
                    break
            raise Violation(
                "I4-table-not-weak",
                "after dropping every handle and collecting, intern tables are larger than at the start of the run: %s%s" % (grown, detail),
            )


class _MemoLazy:
    """memoize() over lazy (memoize over eager creates arrays, so I2 does not apply)."""

    def __init__(self, I):
        self.I = I

    def __enter__(self):
        self.a = self.I.lazy
        self.a.__enter__()
        self.b = self.I.memoize()
        self.b.__enter__()

    def __exit__(self, *exc):
        self.b.__exit__(*exc)
        self.a.__exit__(*exc)


def _brief(obj):
    if obj is None:
        return None
    try:
        import funsor

        if isinstance(obj, funsor.terms.Funsor):
            return "%s%s" % (funsor.typing.get_origin(type(obj)).__name__, list(obj.inputs))
        return repr(obj)[:60]
    except Exception:  # noqa
        return type(obj).__name__


def _reinterpret_difference(obj, back):
    """Locate the first node whose rebuilt copy is a different object although
    its children were rebuilt identically; describe why."""
    import funsor

    def find(x, seen):
        if isinstance(x, (tuple, frozenset)):  # arbitrarily nested containers (e.g. Delta's terms)
            for c in x:
                r = find(c, seen)
                if r is not None:
                    return r
            return None
        if not isinstance(x, funsor.terms.Funsor) or id(x) in seen:
            return None
        seen.add(id(x))
        for v in x._ast_values:
            r = find(v, seen)
            if r is not None:
                return r
        with funsor.interpretations.reflect:
            again = funsor.reinterpret(x)
        if again is not x:
            return x
        return None

    node = find(obj, set())
    if node is None:
        return "unlocated"
    name = funsor.typing.get_origin(type(node)).__name__
    if name == "Contraction" and len(node.terms) == 1:
        return "Contraction-with-one-term"
    return "node:" + name


def _run_history(args):
    import gc

    from sim import seams

    hist = args
    gc.collect()
    baseline = _table_sizes()
    sim = Sim()
    sim.inj = seams.CallInjector()
    sim.inj.install()
    import funsor
    from funsor.domains import ArrayType
    from funsor.interpretations import Memoize
    from funsor.ops.op import OpMeta
    from funsor.typing import GenericTypeMeta

    sim.lines = seams.LineInjector()
    sim.lines.install(
        [
            funsor.interpretations.reflect.interpret,
            GenericTypeMeta.__getitem__,
            ArrayType.__getitem__,
            OpMeta.__call__,
            Memoize.interpret,
        ]
    )
    violation = None
    try:
        for n, ev in enumerate(hist):
            sim.step(ev)
            sim.check_I1()
        sim.quiesce(baseline)
    except Violation as v:
        violation = {"invariant": v.invariant, "message": v.message, "at_event": sim.stats["events"], "fingerprint": v.invariant}
    except Exception:  # noqa
        import traceback

        violation = None
        sim.stats["harness_exception"] = traceback.format_exc()[-1500:]
    return {"violation": violation, "soft": sim.soft[:3], "stats": sim.stats, "log_digest": W.digest(sim.log), "nlog": len(sim.log)}


_SWEEP_VALUES = {
    # parameter name -> two distinct legal values
    "axis": (0, 1), "dim": (0, 1), "dim1": (0, 1), "dim2": (1, 2), "axis1": (0, 1), "axis2": (1, 0), "offset": (0, 1), "ddof": (0, 1),
    "keepdims": (False, True), "upper": (False, True), "transpose": (False, True), "validate_args": (True, False),
    "shape": ((2, 3), (3, 2)), "value": (1.0, 2.0), "index": (slice(0, 2), 0), "equation": ("a,a->", "ab,b->a"),
    "mode": ("reduced", "complete"), "dtype": ("float32", "float64"), "start": (0, 1), "stop": (2, 3), "step": (1, 2),
    "min": (0.0, 0.5), "max": (1.0, 2.0), "dims": ((1, 0), (0, 1)), "fn": (_shift, _scale), "source": (0, 1), "destination": (1, 0),
}


def _op_family_sweep(_payload=None):
    """Every parametrised op family of funsor.ops, by introspection: for each
    parameter with two known legal values, the two requests (both alive) are
    different ops that carry the values asked for; an equal request and a
    pickle round trip return the identical op."""
    import inspect
    import pickle

    import funsor
    from funsor import ops
    from funsor.ops.op import Op

    stats = {"sweep_families": 0, "sweep_parameters": 0, "sweep_skipped": 0}
    seen = set()
    for name in sorted(dir(ops)):
        obj = getattr(ops, name)
        if not isinstance(obj, Op) or type(obj) in seen:
            continue
        cls = type(obj)
        seen.add(cls)
        params = list(cls.signature.parameters)[cls.arity :]
        if not params:
            continue
        stats["sweep_families"] += 1
        for p in params:
            vals = _SWEEP_VALUES.get(p)
            if vals is None:
                stats["sweep_skipped"] += 1
                continue
            try:
                a = cls(**{p: vals[0]})
                b = cls(**{p: vals[1]})
            except Exception:  # noqa
                stats["sweep_skipped"] += 1
                continue
            stats["sweep_parameters"] += 1
            what = "ops.%s(%s=%r) / (%s=%r)" % (cls.__name__, p, vals[0], p, vals[1])
            if a is b:
                return {"violation": {"invariant": "I3-stale-object", "message": "%s: the second request was answered with the first op" % what}, "stats": stats}
            if a.defaults.get(p) != vals[0] or b.defaults.get(p) != vals[1]:
                return {"violation": {"invariant": "I3-stale-object", "message": "%s: parameters carried are %r and %r" % (what, a.defaults.get(p), b.defaults.get(p))}, "stats": stats}
            if cls(**{p: vals[0]}) is not a or cls(**{p: vals[1]}) is not b:
                return {"violation": {"invariant": "I2-not-identical", "message": "%s: an equal request returned a different op while the first is alive" % what}, "stats": stats}
            for x in (a, b):
                try:
                    back = pickle.loads(pickle.dumps(x))
                except Exception:  # noqa
                    continue
                if back is not x:
                    return {"violation": {"invariant": "I5-pickle-roundtrip", "message": "%s: the pickle round trip of %r returned a different op (%r)" % (what, dict(x.defaults), dict(back.defaults))}, "stats": stats}
    # domains: every (dtype, shape) of a small grid, and products of two of them
    from funsor.domains import Array, Product

    grid = [(dt, sh) for dt in ("real", 2, 3, 5) for sh in ((), (2,), (3,), (2, 3), (3, 2), (1,), (2, 1))]
    live = {}
    for dt, sh in grid:
        d = Array[dt, sh]
        live[(dt, sh)] = d
        stats["sweep_domains"] = stats.get("sweep_domains", 0) + 1
        what = "Array[%r, %r]" % (dt, sh)
        if d.dtype != dt or tuple(d.shape) != sh:
            return {"violation": {"invariant": "I3-stale-object", "message": "%s is a domain with dtype %r and shape %r" % (what, d.dtype, tuple(d.shape))}, "stats": stats}
        if Array[dt, sh] is not d:
            return {"violation": {"invariant": "I2-not-identical", "message": "%s requested twice gave two live domains" % what}, "stats": stats}
        back = pickle.loads(pickle.dumps(d))
        if back is not d:
            return {"violation": {"invariant": "I5-pickle-roundtrip", "message": "%s came back from pickle as %r" % (what, back)}, "stats": stats}
        v = funsor.Variable("m", d)
        if pickle.loads(pickle.dumps(v)) is not v:
            return {"violation": {"invariant": "I5-pickle-roundtrip", "message": "Variable('m', %s) came back from pickle as a different term" % what}, "stats": stats}
    if len(set(map(id, live.values()))) != len(live):
        return {"violation": {"invariant": "I3-stale-object", "message": "two different (dtype, shape) requests share one domain object"}, "stats": stats}
    keys = sorted(live, key=repr)
    for i in range(0, len(keys) - 1, 3):
        pd = Product[live[keys[i]], live[keys[i + 1]]]
        if Product[live[keys[i]], live[keys[i + 1]]] is not pd:  # (Product domains cannot be pickled at all: an exception, not an identity question)
            return {"violation": {"invariant": "I2-not-identical", "message": "Product[%r, %r] requested twice gave two live domains" % (keys[i], keys[i + 1])}, "stats": stats}
    return {"violation": None, "stats": stats}


def run_histories(payload):
    from sim.iso import fork_call

    r = W.rng(payload["seed"])
    hists = payload.get("histories")
    if hists is None:
        hists = [gen_history(r, payload["maxlen"]) for _ in range(payload["count"])]
    tot = {}
    faults = {}
    digests = set()
    violations = []
    errors = 0
    harness = None
    sample = None
    nontrivial = 0
    soft_seen = set()
    sweep = fork_call(_op_family_sweep, (None,), timeout=60)
    if sweep.get("status") == "ok":
        for k, v in sweep["res"]["stats"].items():
            tot[k] = tot.get(k, 0) + v
        if sweep["res"]["violation"]:
            v = sweep["res"]["violation"]
            v["fingerprint"] = v["invariant"] + "|op-sweep"
            v["history"] = []
            violations.append(v)
    else:
        errors += 1
    for hist in hists:
        if violations and violations[0].get("fingerprint", "").endswith("op-sweep"):
            break
        res = fork_call(_run_history, (hist,), timeout=60)
        if res.get("status") != "ok":
            errors += 1
            continue
        rr = res["res"]
        st = rr["stats"]
        if "harness_exception" in st:
            harness = st.pop("harness_exception")
        for k, v in st.items():
            if k == "faults":
                for fk, fv in v.items():
                    faults[fk] = faults.get(fk, 0) + fv
            else:
                tot[k] = tot.get(k, 0) + v
        if rr["log_digest"] not in digests and st.get("faults"):
            nontrivial += 1
        digests.add(rr["log_digest"])
        for v in rr.get("soft", []):
            if v["fingerprint"] not in soft_seen:
                soft_seen.add(v["fingerprint"])
                violations.append(dict(v, history=hist))
        if rr["violation"]:
            v = rr["violation"]
            v["history"] = hist
            violations.append(v)
            break
        if sample is None and len(hist) <= 8:
            sample = hist
    out = {
        "violations": violations[:4],
        "stats": dict(tot, faults=faults, runs=len(hists), fork_errors=errors, nontrivial=nontrivial),
        "digests": sorted(digests)[:2000],
        "sample": sample,
    }
    if harness:
        raise RuntimeError("harness exception inside a history:\n" + harness)
    return out


def run_short_histories(payload):
    """Exhaustive part: all histories of the given lengths over SHORT_EVENTS
    (split into chunks), plus a seeded sample of histories one event longer."""
    import itertools

    hists = []
    idx = 0
    for k in payload["lengths"]:
        for combo in itertools.product(range(len(SHORT_EVENTS)), repeat=k):
            if idx % payload["nchunks"] == payload["chunk"]:
                hists.append([SHORT_EVENTS[i] for i in combo])
            idx += 1
    r = W.rng(payload["seed"])
    longer = max(payload["lengths"]) + 1
    for _ in range(payload.get("extra", 0)):
        hists.append([r.choice(SHORT_EVENTS) for _ in range(longer)])
    out = run_histories({"seed": payload["seed"], "histories": hists, "count": len(hists), "maxlen": longer})
    out["stats"]["enumerated_short_histories"] = len(hists) - payload.get("extra", 0)
    return out


###############################################################################
# RESTART: a crash/restart with only pickles surviving


def _phase_a(args):
    """Run the first segment, then pickle every live handle."""
    import base64
    import gc
    import pickle

    import funsor

    from sim import oracle, seams

    hist = args
    gc.collect()
    sim = Sim()
    sim.inj = seams.CallInjector()
    sim.inj.install()
    sim.lines = seams.LineInjector()
    violation = None
    try:
        for ev in hist:
            if ev["e"] in ("gc_at_line",):
                continue
            sim.step(ev)
            sim.check_I1()
    except Violation as v:
        violation = {"invariant": v.invariant, "message": v.message, "fingerprint": v.invariant}
    survivors = []
    objs = [h[1] for h in sim.handles]
    for i, obj in enumerate(objs):
        try:
            data = pickle.dumps(obj)
        except Exception:  # noqa
            continue
        same_as = next((j for j in range(i) if objs[j] is obj), None)
        subterm_of = [j for j, other in enumerate(objs) if other is not obj and isinstance(other, funsor.terms.Funsor) and _contains(other, obj)]
        survivors.append(
            {
                "i": i,
                "pickle": base64.b64encode(data).decode(),
                "canon": oracle.canon(obj) if isinstance(obj, funsor.terms.Funsor) else repr(obj),
                "array_free": not _has_array(obj),
                "same_as": same_as,
                "subterm_of": subterm_of,
            }
        )
    return {"violation": violation, "soft": sim.soft[:3], "survivors": survivors, "gensym": seams.get_gensym(), "stats": sim.stats}


def _contains(term, sub, depth=0):
    import funsor

    if depth > 30:
        return False
    for v in term._ast_values:
        for c in v if isinstance(v, (tuple, frozenset)) else (v,):
            if c is sub:
                return True
            if isinstance(c, funsor.terms.Funsor) and _contains(c, sub, depth + 1):
                return True
    return False


def _find_equal_subterm(term, canon, depth=0):
    import funsor

    from sim import oracle

    out = []
    for v in term._ast_values:
        for c in v if isinstance(v, (tuple, frozenset)) else (v,):
            if isinstance(c, funsor.terms.Funsor):
                if oracle.canon(c) == canon:
                    out.append(c)
                if depth < 30:
                    out.extend(_find_equal_subterm(c, canon, depth + 1))
    return out


def restart_main():
    """Phase B, executed in a *new interpreter* of the same world: unpickle the
    survivors, check that structure and sharing survived, continue the history."""
    import base64
    import gc
    import pickle
    import sys

    gc.disable()
    import funsor

    funsor.set_backend("numpy")
    from sim import oracle, seams

    seams.world_init()
    payload = json.loads(sys.stdin.read())
    gc.collect()
    baseline = _table_sizes()
    sim = Sim()
    sim.inj = seams.CallInjector()
    sim.inj.install()
    sim.lines = seams.LineInjector()
    violation = None
    stats = {"survivors": 0, "restart_identity_checks": 0, "restart_sharing_checks": 0, "bound_name_coincidences": 0}
    def body():
        import re

        back = {}
        for sv in payload["survivors"]:
            with funsor.interpretations.reflect:
                obj = pickle.loads(base64.b64decode(sv["pickle"]))
            back[sv["i"]] = obj
            stats["survivors"] += 1
            if isinstance(obj, funsor.terms.Funsor):
                got = oracle.canon(obj)
                if got != sv["canon"]:
                    raise Violation("I5-restart-structure", "a term unpickled after restart differs structurally: %s vs %s" % (json.dumps(got)[:200], json.dumps(sv["canon"])[:200]))
            sim.next_handle += 1
            sim.handles.append([sim.next_handle, obj, "survivor"])
        for sv in payload["survivors"]:
            obj = back[sv["i"]]
            if sv["same_as"] is not None and sv["same_as"] in back and sv["array_free"]:
                stats["restart_identity_checks"] += 1
                if back[sv["same_as"]] is not obj:
                    raise Violation("I5-restart-identity", "two handles to one array-free term unpickle to different objects after restart")
            if sv["array_free"] and isinstance(obj, funsor.terms.Funsor):
                for j in sv["subterm_of"]:
                    if j in back and isinstance(back[j], funsor.terms.Funsor):
                        stats["restart_sharing_checks"] += 1
                        for c in _find_equal_subterm(back[j], sv["canon"]):
                            if c is not obj:
                                raise Violation(
                                    "I1-duplicate-live-term",
                                    "after restart an array-free sub-term and the separately unpickled equal term are different live objects: %s" % _brief(obj),
                                )
        sim.check_I1()
        # bound names of survivors vs. names the restarted counter hands out (monitor only)
        old_names = set(re.findall(r"[A-Za-z0-9_]+__BOUND_[0-9]+", json.dumps([sv["canon"] for sv in payload["survivors"]])))
        for ev in payload["history"]:
            if ev["e"] in ("gc_at_line",):
                continue
            sim.step(ev)
            sim.check_I1()
        new_names = set()
        for h in sim.handles:
            if isinstance(h[1], funsor.terms.Funsor):
                new_names.update(n for n in re.findall(r"[A-Za-z0-9_]+__BOUND_[0-9]+", repr(h[1])))
        stats["bound_name_coincidences"] = len(old_names & new_names)

    try:
        body()
        sim.quiesce(baseline)
    except Violation as v:
        violation = {"invariant": v.invariant, "message": v.message, "fingerprint": v.invariant}
    out = {"violation": violation, "soft": sim.soft[:3], "stats": dict(sim.stats, **stats)}
    sys.stdout.write("RESULT " + json.dumps(out) + "\n")


def run_restart_histories(payload):
    import os
    import subprocess
    import sys

    from sim.iso import fork_call

    r = W.rng(payload["seed"])
    pairs = payload.get("pairs")
    if pairs is None:
        pairs = [[gen_history(r, payload["maxlen"]), gen_history(r, payload["maxlen"])] for _ in range(payload["count"])]
    tot = {"runs": 0, "restarts": 0, "survivors": 0, "restart_identity_checks": 0, "restart_sharing_checks": 0, "bound_name_coincidences": 0, "events": 0, "fork_errors": 0}
    violations = []
    soft_seen = set()
    for a, b in pairs:
        tot["runs"] += 1
        ra = fork_call(_phase_a, (a,), timeout=60)
        if ra.get("status") != "ok":
            tot["fork_errors"] += 1
            continue
        ra = ra["res"]
        tot["events"] += ra["stats"]["events"]
        for v in ra["soft"]:
            if v["fingerprint"] not in soft_seen:
                soft_seen.add(v["fingerprint"])
                violations.append(dict(v, pair=[a, b]))
        if ra["violation"]:
            violations.append(dict(ra["violation"], pair=[a, b]))
            break
        p = subprocess.run(
            [sys.executable, "-c", "from checks import c07; c07.restart_main()"],
            input=json.dumps({"survivors": ra["survivors"], "history": b}),
            capture_output=True,
            text=True,
            env=os.environ,
            cwd=W.VERIF_DIR,
            timeout=120,
        )
        line = [l for l in p.stdout.splitlines() if l.startswith("RESULT ")]
        if p.returncode != 0 or not line:
            raise RuntimeError("restart interpreter failed: " + (p.stderr or p.stdout)[-1500:])
        rb = json.loads(line[-1][7:])
        tot["restarts"] += 1
        for k in ("survivors", "restart_identity_checks", "restart_sharing_checks", "bound_name_coincidences", "events"):
            tot[k] += rb["stats"].get(k, 0)
        for v in rb["soft"]:
            if v["fingerprint"] not in soft_seen:
                soft_seen.add(v["fingerprint"])
                violations.append(dict(v, pair=[a, b]))
        if rb["violation"]:
            violations.append(dict(rb["violation"], pair=[a, b]))
            break
    return {"violations": violations[:4], "stats": dict(tot, faults={"RESTART": tot["restarts"]}, nontrivial=tot["restarts"]), "digests": [], "sample": None}


###############################################################################
# runner side


def summarize(jobs, results, tier):
    tot = {}
    faults = {}
    digests = set()
    samples = []
    for job, res in zip(jobs, results):
        if not res or res.get("status") != "ok":
            continue
        st = res["res"]["stats"]
        for k, v in st.items():
            if k == "faults":
                for fk, fv in v.items():
                    faults[fk] = faults.get(fk, 0) + fv
            else:
                tot[k] = tot.get(k, 0) + v
        digests.update(res["res"]["digests"])
        if res["res"].get("sample") and len(samples) < 3:
            samples.append(res["res"]["sample"])
    return {
        "evaluations": tot.get("runs", 0),
        "distinct_nontrivial": len(digests),
        "rule": "one evaluation = one history (3-30 events over <=12 live handles and 3 array slots) run in a fresh fork; every history "
        "of length <=2 over a reduced 21-event alphabet is enumerated completely, the rest are seeded; "
        "events: construct under reflect/lazy/normalize/memoize/eager(leaf constructors), drop, gc(gen), re-allocate an array slot, "
        "pickle round trip, reinterpret under reflect, touch lazy properties, exception injected at the n-th internal call of a "
        "construct, collection injected at the n-th executed line of reflect/__getitem__/OpMeta.__call__/Memoize.interpret. "
        "distinct_nontrivial = number of distinct event-log digests (the log records what each event did, e.g. whether an id was "
        "recycled, what a construct returned).",
        "samples": samples or [{"note": "none"}],
        "exhaustive": False,
        "events": tot.get("events", 0),
        "constructs": tot.get("constructs", 0),
        "constructs_raising": tot.get("construct_errors", 0),
        "I2_identity_hits_checked": tot.get("identity_hits", 0),
        "I1_live_objects_checked": tot.get("I1_objects_checked", 0),
        "I5_pickle_identical": tot.get("pickle_identical", 0),
        "pickle_distinct_objects": tot.get("pickle_distinct", 0),
        "array_ids_recycled": tot.get("id_recycled", 0),
        "op_family_sweep": {"families": tot.get("sweep_families", 0), "parameters_with_two_values": tot.get("sweep_parameters", 0), "parameters_skipped": tot.get("sweep_skipped", 0)},
        "short_histories_enumerated_completely": tot.get("enumerated_short_histories", 0),
        "restarts_into_a_new_interpreter": tot.get("restarts", 0),
        "survivors_unpickled_after_restart": tot.get("survivors", 0),
        "restart_identity_and_sharing_checks": tot.get("restart_identity_checks", 0) + tot.get("restart_sharing_checks", 0),
        "bound_name_coincidences_after_restart_observed": tot.get("bound_name_coincidences", 0),
        "observed_keyerror_in_membership_window": tot.get("observed_keyerror_window", 0),
        "faults_fired_by_kind": faults,
        "fork_errors": tot.get("fork_errors", 0),
        "components": {
            "real": ["funsor (working tree)", "pickle", "gc (collections as scheduled events)", "weakref"],
            "stubbed": ["automatic GC trigger (disabled)", "object hashes (seeded hook)"],
        },
    }


def minimize(job, violation, test):
    if violation.get("pair"):
        j = dict(job, payload=dict(job["payload"], pairs=[violation["pair"]]))
        for v in test(j):
            if v.get("invariant") == violation["invariant"]:
                return j, v
        return job, violation
    hist = violation.get("history")
    if not hist:
        return job, violation
    inv = violation["invariant"]
    budget = [60]

    def attempt(h):
        if budget[0] <= 0 or not h:
            return None
        budget[0] -= 1
        j = dict(job, payload=dict(job["payload"], histories=[h]))
        for v in test(j):
            if v.get("invariant") == inv and v.get("fingerprint") == violation.get("fingerprint"):
                return j, v
        return None

    best = attempt(hist)
    if best is None:
        return job, violation
    # truncate after the failing event
    at = violation.get("at_event")
    if at and at < len(hist):
        got = attempt(hist[:at])
        if got:
            hist, best = hist[:at], got
    improved = True
    while improved and budget[0] > 0:
        improved = False
        for i in range(len(hist) - 1, -1, -1):
            cand = hist[:i] + hist[i + 1 :]
            got = attempt(cand)
            if got:
                hist, best = cand, got
                improved = True
                break
    return best
