"""C16 - pattern dispatch picks a most specific rule, deterministically.

Engine `dispatch`: every PartialDispatcher.partial_call of a workload is
monitored (winner most specific among the matching registered signatures);
sessions interleave real work with cache drops, collections, late registration
of unrelated rules and replays (history independence); the map
`type-tuple -> rule` is merged across hash worlds (world independence) and
re-derived from shadow registries built in permuted registration order; the
order axioms are evaluated on the pool of reached types.  DESIGN.md 6 (C16)."""

import json

from sim import world as W

from . import c02

PROPERTY = "C16"
LEVEL = "exploration"
BUDGET = {"quick": 300, "thorough": 3000}
ASSUMPTIONS = [
    "the matching relation used by the monitor is issubclass on the wrapped types, i.e. funsor's own deep_issubclass; its axioms "
    "(reflexive, transitive, agreement with isinstance) are checked separately on the reached type pool",
    "specificity between signatures is multipledispatch.conflict.supercedes",
    "numpy backend; dispatchers reached: every KeyedRegistry entry of every interpretation and every op dispatcher",
]


def plan(seed, tier):
    nprog = 1600 if tier == "quick" else 48000
    ngen = 16
    jobs = []
    for g in range(ngen):
        jobs.append(
            {
                "world": c02.GEN_WORLD,
                "fn": "gen_programs",
                "payload": {"seed": "%s/c16gen/%d" % (seed, g), "count": nprog // ngen, "tier": tier, "corpus": g < 2},
                "timeout": 900,
            }
        )
    return jobs


def gen_programs(payload):
    return c02.gen_programs(payload)


def post_plan(seed, tier, jobs, results):
    nworlds = 8 if tier == "quick" else 16
    worlds = [W.make_world(seed, i) for i in range(nworlds)]
    progs = []
    for job, res in zip(jobs, results):
        if res and res.get("status") == "ok":
            progs.extend(res["res"]["programs"])
    out = []
    chunk = 10
    for ci in range(0, len(progs), chunk):
        group = progs[ci : ci + chunk]
        # each group of programs runs in two worlds, in different orders (first-use order)
        for rep in range(2):
            out.append(
                {
                    "world": worlds[(ci // chunk + rep * 3) % nworlds],
                    "fn": "run_session",
                    "payload": {"programs": group, "seed": "%s/c16/%d/%d" % (seed, ci, rep), "group": ci, "rep": rep, "axioms": rep == 0 and (ci // chunk) % 4 == 0},
                    "timeout": 1200,
                }
            )
        if (ci // chunk) % 2 == 0:
            out.append(
                {
                    "world": worlds[(ci // chunk + 2) % nworlds],
                    "fn": "userland_dispatch",
                    "payload": {"seed": "%s/c16u/%d" % (seed, ci), "reps": 6, "containers": 40 if tier == "quick" else 160, "subsets": 60 if tier == "quick" else 240},
                    "timeout": 900,
                }
            )
        out.append(
            {
                "world": worlds[(ci // chunk + 5) % nworlds],
                "fn": "instance_checks",
                "payload": {"programs": group, "seed": "%s/c16i/%d" % (seed, ci)},
                "timeout": 1200,
            }
        )
    return out


###############################################################################
# child side


class Monitor:
    def __init__(self):
        self.checked = {}  # (id(dispatcher), types tuple) -> rule name
        self.table = {}  # (dispatcher label, canonical types repr) -> rule name
        self.violations = []
        self.calls = 0
        self.distinct = 0
        self.multi_match = 0
        self.dispatchers = {}
        self.orig = None
        self.pool = {}  # repr -> type
        self.keep = []
        self.observed = {}  # id(dispatcher) -> (dispatcher, {types tuple})

    def label(self, disp):
        lab = self.dispatchers.get(id(disp))
        if lab is None:
            lab = self._find_label(disp)
            self.dispatchers[id(disp)] = lab
            self.keep.append(disp)
        return lab

    def _find_label(self, disp):
        import funsor
        from funsor.ops.op import Op

        from sim import seams

        for interp in seams.dispatched_interpretations():
            for key, d in interp.registry.registry.items():
                if d is disp:
                    return "%s/%s" % (_interp_label(interp), getattr(key, "__name__", str(key)))
        for cls in _walk(funsor.interpretations.StatefulInterpretation):
            reg = cls.__dict__.get("registry")
            if reg is not None:
                for key, d in reg.registry.items():
                    if d is disp:
                        return "%s/%s" % (cls.__name__, getattr(key, "__name__", str(key)))
        for cls in _walk(Op):
            if cls.__dict__.get("dispatcher") is disp:
                return "op/" + cls.__name__
        return "other/" + str(getattr(disp, "name", "?"))

    def install(self):
        from funsor.registry import PartialDispatcher
        from funsor.typing import deep_type, typing_wrap

        mon = self
        orig = self.orig = PartialDispatcher.partial_call

        def partial_call(self_, *args):
            func = orig(self_, *args)
            mon.calls += 1
            try:
                types = tuple(map(typing_wrap, map(deep_type, args)))
            except Exception:  # noqa
                return func
            key = (id(self_), types)
            if key not in mon.checked:
                mon.keep.append(types)
                mon.check(self_, types, func)
            return func

        PartialDispatcher.partial_call = partial_call

    def uninstall(self):
        from funsor.registry import PartialDispatcher

        if self.orig is not None:
            PartialDispatcher.partial_call = self.orig

    def check(self, disp, types, func):
        from sim import seams

        lab = self.label(disp)
        rname = seams.rule_name(func) or "<default>"
        self.checked[(id(disp), types)] = rname
        self.distinct += 1
        self.observed.setdefault(id(disp), (disp, set()))[1].add(types)
        for t in types:
            self.pool.setdefault(repr(t), t)
        canon = (lab, tuple(repr(t) for t in types))
        prev = self.table.setdefault(canon, rname)
        if prev != rname and len(self.violations) < 3:
            self.violations.append(
                {
                    "invariant": "dispatch-depends-on-history",
                    "message": "%s%s dispatched to %s earlier in this run and to %s now" % (lab, list(canon[1]), prev, rname),
                    "fingerprint": "dispatch-depends-on-history",
                }
            )
        msg = most_specific_violation(disp, types, func)
        if msg == "multi":
            self.multi_match += 1
        elif msg == "ambiguous":
            self.ambiguous = getattr(self, "ambiguous", 0) + 1
        elif msg and len(self.violations) < 6:
            fp = "winner-not-most-specific"
            if msg.startswith("[empty-variadic-tail-vs-fixed]"):
                fp += "|empty-variadic-tail-vs-fixed"
                if any(v["fingerprint"] == fp for v in self.violations):
                    return
            self.violations.append({"invariant": "winner-not-most-specific", "message": "%s%s: %s" % (lab, list(canon[1]), msg), "fingerprint": fp})


_INTERP_LABELS = {}


def _interp_label(interp):
    """Interpretation objects by the module attribute that names them (two of
    funsor's are both called 'dispatched')."""
    import sys

    if not _INTERP_LABELS:
        for mname in sorted(m for m in sys.modules if m == "funsor" or m.startswith("funsor.")):
            mod = sys.modules[mname]
            for attr, val in sorted(vars(mod).items(), key=lambda kv: kv[0]):
                if type(val).__name__ == "DispatchedInterpretation":
                    _INTERP_LABELS.setdefault(id(val), "%s.%s" % (mname, attr))
    return _INTERP_LABELS.get(id(interp), interp.__name__)


def _walk(cls):
    yield cls
    for sub in cls.__subclasses__():
        yield from _walk(sub)


def sig_matches(types, sig):
    from multipledispatch.variadic import isvariadic

    if sig and isvariadic(sig[-1]):
        fixed = sig[:-1]
        if len(types) < len(fixed):
            return False
        if not all(issubclass(t, s) for t, s in zip(types, fixed)):
            return False
        return all(issubclass(t, sig[-1]) for t in types[len(fixed) :])
    return len(types) == len(sig) and all(issubclass(t, s) for t, s in zip(types, sig))


def _at_least_as_specific(w, m, n):
    """Is signature w at least as specific as m for calls with n arguments?
    Variadic tails are expanded to n positions, then compared position by
    position with issubclass (for equal fixed arities this is
    multipledispatch.conflict.supercedes; across a variadic and a fixed
    signature supercedes is incomplete, e.g. (Funsor, [X]) vs (object,))."""
    from multipledispatch.variadic import isvariadic

    def expand(sig):
        if sig and isvariadic(sig[-1]):
            return tuple(sig[:-1]) + (sig[-1],) * (n - len(sig) + 1)
        return tuple(sig)

    W, M = expand(w), expand(m)
    if len(W) != n or len(M) != n:
        return False
    for a, b in zip(W, M):
        alts = a.variadic_type if isvariadic(a) else (a,)
        if not all(issubclass(x, b) for x in alts):
            return False
    return True


def most_specific_violation(disp, types, func):
    """None if ok, 'multi' if ok with several matches, else a message."""
    from sim import seams

    def supercedes(w, m):
        return _at_least_as_specific(w, m, len(types))

    matching = [sig for sig in disp.funcs if sig_matches(types, sig)]
    if not matching:
        if func is None:
            return None
        return "a rule was returned although no registered signature matches"
    winners = [sig for sig in matching if disp.funcs[sig] is func]
    if not winners:
        return "the rule that runs (%s) is registered under no matching signature; matching: %s" % (seams.rule_name(func), [_sig(s) for s in matching][:4])
    for w in winners:
        if all(supercedes(w, m) for m in matching):
            return "multi" if len(matching) > 1 else None
    if not any(all(supercedes(c, m) for m in matching) for c in matching):
        # the matching patterns overlap without any of them being below all others
        # (an ambiguous registry): the property presupposes a most specific pattern
        return "ambiguous"
    better = [m for m in matching if not any(supercedes(w, m) for w in winners)]
    from multipledispatch.variadic import isvariadic

    n = len(types)
    w0, b0 = winners[0], better[0]
    tag = ""
    if (w0 and isvariadic(w0[-1]) and len(w0) - 1 == n and len(b0) == n and not isvariadic(b0[-1])) or (
        b0 and isvariadic(b0[-1]) and len(b0) - 1 == n and len(w0) == n and not isvariadic(w0[-1])
    ):
        tag = "[empty-variadic-tail-vs-fixed] "
    return tag + "the rule that runs (%s, pattern %s) is not at least as specific as the matching pattern %s (%s)" % (
        seams.rule_name(func),
        _sig(winners[0]),
        _sig(better[0]),
        seams.rule_name(disp.funcs[better[0]]),
    )


def _sig(sig):
    return "(" + ", ".join(repr(t) for t in sig) + ")"


def register_unrelated(r, counter):
    """Late registration of rules for patterns the workload never produces."""
    import funsor
    from funsor import ops
    from funsor.factory import Fresh, make_funsor
    from funsor.interpretations import eager, lazy, normalize
    from funsor.ops.op import BinaryOp
    from funsor.terms import Binary, Funsor, Unary

    counter[0] += 1
    n = counter[0]
    kind = r.choice(["new_class", "new_op_binary", "new_op_unary"])
    if kind == "new_class":

        @make_funsor
        def Late(x: Funsor) -> Fresh[lambda x: x]:
            return None

        Late.__name__ = "Late%d" % n

        @eager.register(Late, funsor.Tensor)
        def late_rule(x):
            return None

    elif kind == "new_op_binary":

        @BinaryOp.make(name="late_op_%d" % n)
        def late_op(x, y):
            return x

        # (LateOp, Tensor, Tensor) is below every existing pattern it overlaps with,
        # so it introduces no ambiguity of its own
        @eager.register(Binary, type(late_op), funsor.Tensor, funsor.Tensor)
        def late_binary(op, lhs, rhs):
            return None

    else:
        from funsor.ops.op import UnaryOp

        @UnaryOp.make(name="late_uop_%d" % n)
        def late_uop(x):
            return x

        @eager.register(Unary, type(late_uop), funsor.Tensor)
        def late_unary(op, x):
            return None

    return kind


def run_session(payload):
    from sim.iso import fork_call

    res = fork_call(_session, (payload,), timeout=payload.get("timeout", 500))
    if res.get("status") != "ok":
        raise RuntimeError("session failed: %s" % (res.get("err") or res))
    return res["res"]


def _session(payload):
    import gc

    import funsor

    from sim import execs, oracle, seams

    from . import c03

    r = W.rng(payload["seed"])
    mon = Monitor()
    mon.install()
    programs = list(payload["programs"])
    if payload.get("rep"):
        r.shuffle(programs)  # different first-use order
    faults = {}
    counter = [0]
    executed = 0
    modes = list(c02.MODES)
    plan = []
    for item in programs:
        plan.append(("prog", item))
        if r.random() < 0.6:
            plan.append((r.choice(["cache_drop", "gc", "register", "replay", "lru_drop"]), None))
    done = []
    for kind, item in plan:
        if kind == "prog":
            oracle.set_carrier(item.get("family"))
            sched, force = c02.MODES[item["mode"] if r.random() < 0.5 else r.choice(modes)]
            try:
                execs.run_program(item["program"], sched, force)
            except Exception:  # noqa
                pass
            executed += 1
            done.append(item)
        else:
            faults[kind] = faults.get(kind, 0) + 1
            if kind == "cache_drop":
                c03.drop_dispatch_caches()
                mon.checked.clear()
            elif kind == "lru_drop":
                from funsor.typing import deep_issubclass

                deep_issubclass.cache_clear()
                mon.checked.clear()
            elif kind == "gc":
                gc.collect()
                mon.checked.clear()
            elif kind == "register":
                register_unrelated(r, counter)
                mon.checked.clear()
            elif kind == "replay" and done:
                it = r.choice(done)
                sched, force = c02.MODES[it["mode"]]
                mon.checked.clear()
                try:
                    execs.run_program(it["program"], sched, force)
                except Exception:  # noqa
                    pass
    out = {
        "violations": list(mon.violations),
        "stats": {
            "runs": executed,
            "dispatch_calls": mon.calls,
            "distinct_type_tuples_checked": len(mon.table),
            "with_several_matching_patterns": mon.multi_match,
            "faults": faults,
            "dispatchers": len(mon.dispatchers),
        },
        "table": {json.dumps(k): v for k, v in mon.table.items()},
    }
    if not mon.violations:
        v = shadow_registry_check(mon, r, out["stats"])
        if v:
            out["violations"].append(v)
        v = synthesised_tuples_check(mon, r, out["stats"])
        if v:
            out["violations"].append(v)
        if payload.get("axioms"):
            v = axioms_check(mon, out["stats"])
            if v:
                out["violations"].append(v)
    mon.uninstall()
    return out


def world_replay(payload):
    """Replay form of a world/first-use-order disagreement: run the session in
    this world and compare one table entry with the rule recorded elsewhere."""
    res = run_session(payload)
    exp = payload["expect"]
    got = res["table"].get(exp["key"])
    violations = list(res["violations"])
    if got is not None and got != exp["rule"]:
        violations.append(
            {
                "invariant": "dispatch-depends-on-world",
                "message": "%s dispatched to %s in world %s and to %s in this world" % (exp["key"], exp["rule"], exp["world"].get("index"), got),
                "fingerprint": "dispatch-depends-on-world",
            }
        )
    return {"violations": violations, "stats": res["stats"], "table": {}}


def shadow_registry_check(mon, r, stats):
    """Rebuild each dispatcher's registry in a seeded permuted registration
    order; the winner for every observed type tuple must be the same rule."""
    from funsor.registry import PartialDispatcher

    from sim import seams

    n = 0
    for did, (disp, tuples) in list(mon.observed.items()):
        items = list(disp.funcs.items())
        if len(items) < 2:
            continue
        for rep in range(2):
            r.shuffle(items)
            shadow = PartialDispatcher(name="shadow")
            for sig, fn in items:
                shadow.funcs[sig] = fn
            shadow._cache.clear()
            try:
                del shadow._ordering
            except AttributeError:
                pass
            for types in tuples:
                try:
                    a = disp.dispatch(*types)
                    b = shadow.dispatch(*types)
                except Exception:  # noqa
                    continue
                n += 1
                if a is not b:
                    stats["shadow_dispatches"] = n
                    return {
                        "invariant": "dispatch-depends-on-registration-order",
                        "message": "%s%s resolves to %s in registration order but to %s when the same patterns are registered in another order"
                        % (mon.label(disp), [repr(t) for t in types], seams.rule_name(a), seams.rule_name(b)),
                        "fingerprint": "dispatch-depends-on-registration-order",
                    }
    stats["shadow_dispatches"] = n
    return None


def synthesised_tuples_check(mon, r, stats):
    """For registered signatures, synthesise argument type tuples by
    specialising each position to a pool type below it, and check the winner."""
    from multipledispatch.variadic import isvariadic

    pool = list(mon.pool.values())
    n = 0
    for did, (disp, tuples) in list(mon.observed.items()):
        if mon.label(disp).startswith(("op/", "other/")):
            continue  # the property speaks about patterns over a term's arguments
        sigs = [s for s in disp.funcs if not (s and isvariadic(s[-1]))]
        for sig in sigs[:40]:
            for _ in range(2):
                types = []
                for s in sig:
                    below = [t for t in r.sample(pool, min(len(pool), 25)) if _safe_issubclass(t, s)]
                    types.append(r.choice(below) if below else s)
                types = tuple(types)
                try:
                    func = disp.dispatch(*types)
                except Exception:  # noqa
                    continue
                n += 1
                msg = most_specific_violation(disp, types, func)
                if msg and msg not in ("multi", "ambiguous"):
                    stats["synthesised_dispatches"] = n
                    return {
                        "invariant": "winner-not-most-specific",
                        "message": "%s%s (synthesised): %s" % (mon.label(disp), [repr(t) for t in types], msg),
                        "fingerprint": "winner-not-most-specific",
                    }
    stats["synthesised_dispatches"] = n
    return None


def _safe_issubclass(a, b):
    try:
        return issubclass(a, b)
    except Exception:  # noqa
        return False


def axioms_check(mon, stats):
    """Order axioms of deep_issubclass on the pool of reached types plus the
    types of all registered signatures."""
    import numpy as np
    from multipledispatch.variadic import isvariadic

    from funsor.typing import deep_issubclass, get_args, get_origin

    pool = dict(mon.pool)
    for did, (disp, tuples) in mon.observed.items():
        for sig in disp.funcs:
            for t in sig:
                if not isvariadic(t):
                    pool.setdefault(repr(t), t)
    # synthesised unions and containers of unions over the reached types
    import numbers
    import typing

    import funsor
    from funsor.typing import typing_wrap

    plain = [t for k, t in sorted(pool.items()) if type(t).__name__ != "_RuntimeSubclassCheckMeta"]
    base = [funsor.terms.Funsor, funsor.Tensor, funsor.terms.Number, funsor.terms.Variable, numbers.Number, int, float, str]
    r = W.rng("c16-axioms", len(plain))
    unions = [
        typing.Union[funsor.Tensor, funsor.terms.Number],
        typing.Union[funsor.terms.Funsor, numbers.Number],
        typing.Union[int, float],
        typing.Union[funsor.terms.Number, funsor.Tensor, funsor.terms.Variable],
    ]
    cands = [t for t in plain if isinstance(t, type)] + base
    for _ in range(24):
        try:
            unions.append(typing.Union[tuple(r.sample(cands, r.choice([2, 2, 3])))])
        except Exception:  # noqa
            pass
    synth = list(base) + unions
    for u in unions[:12]:
        synth += [typing.Tuple[u, ...], typing.FrozenSet[u], typing.Tuple[u, u]]
    synth += [typing.Tuple[funsor.terms.Funsor, ...], typing.Tuple[numbers.Number, ...], typing.FrozenSet[funsor.terms.Funsor]]
    for t in synth:
        pool.setdefault(repr(t), t)
        w = typing_wrap(t)
        pool.setdefault(repr(w), w)
    wrapped = {k: t for k, t in pool.items()}
    unwrapped = {}
    for k, t in pool.items():
        args = getattr(t, "__args__", ())
        if type(t).__name__ == "_RuntimeSubclassCheckMeta" and args:
            unwrapped.setdefault(repr(args[0]), args[0])
        else:
            unwrapped.setdefault(k, t)
    stats["axiom_pool"] = 0
    stats["axiom_pairs"] = 0
    stats["axiom_triples"] = 0
    stats["axiom_pair_errors"] = 0
    for label, rel, members in (("issubclass (as used for matching)", _safe_issubclass_strict, wrapped), ("deep_issubclass", deep_issubclass, unwrapped)):
        names = sorted(members)[:420]
        types = [members[k] for k in names]
        n = len(types)
        R = np.zeros((n, n), dtype=bool)
        E = np.zeros((n, n), dtype=bool)
        for i, a in enumerate(types):
            for j, b in enumerate(types):
                try:
                    R[i, j] = bool(rel(a, b))
                except Exception:  # noqa
                    E[i, j] = True
        stats["axiom_pool"] += n
        stats["axiom_pairs"] += n * n
        stats["axiom_pair_errors"] += int(E.sum())
        for i in range(n):
            if not R[i, i] and not E[i, i]:
                return {"invariant": "subtype-not-reflexive", "message": "%s(%s, %s) is False" % (label, names[i], names[i]), "fingerprint": "subtype-not-reflexive"}
        R2 = (R.astype(np.int32) @ R.astype(np.int32)) > 0
        bad = R2 & ~R & ~E
        stats["axiom_triples"] += n * n * n
        if bad.any():
            i, k = [int(x[0]) for x in np.nonzero(bad)]
            j = int(np.nonzero(R[i] & R[:, k])[0][0])
            return {
                "invariant": "subtype-not-transitive",
                "message": "%s: %s <= %s and %s <= %s but not %s <= %s" % (label, names[i], names[j], names[j], names[k], names[i], names[k]),
                "fingerprint": "subtype-not-transitive",
            }
    return None


def _safe_issubclass_strict(a, b):
    return issubclass(a, b)


def member(obj, tp):
    """Reference model of instance membership for the structured types that
    patterns are made of (executable specification, independent of
    funsor.typing's subtype code): returns True / False, or None when the
    model does not cover the type."""
    import typing

    import funsor
    from funsor.typing import GenericTypeMeta, get_args, get_origin

    if type(tp).__name__ == "_RuntimeSubclassCheckMeta":  # typing_wrap[...]
        return member(obj, tp.__args__[0])
    if tp is typing.Any or tp is object:
        return True
    origin = get_origin(tp)
    args = get_args(tp)
    if origin is typing.Union:
        res = [member(obj, a) for a in args]
        return None if any(r is None for r in res) else any(res)
    if origin in (tuple, typing.Tuple):
        if not isinstance(obj, tuple):
            return False
        if not args:
            return True
        if not obj:
            # funsor gives the empty tuple the bare type Tuple, which it places
            # only below bare/Any patterns (keeps the order transitive): not modelled
            return None if args[-1] is Ellipsis else False
        if args[-1] is Ellipsis:
            res = [member(o, args[0]) for o in obj]
        else:
            if len(args) != len(obj):
                return False
            res = [member(o, a) for o, a in zip(obj, args)]
        return None if any(r is None for r in res) else all(res)
    if origin in (frozenset, typing.FrozenSet):
        if not isinstance(obj, frozenset):
            return False
        if not args:
            return True
        if not obj:
            return None  # the empty set: same convention as the empty tuple
        res = [member(o, args[0]) for o in obj]
        return None if any(r is None for r in res) else all(res)
    if isinstance(tp, GenericTypeMeta):
        if not isinstance(obj, origin):
            return False
        if not args:
            return True
        vals = getattr(obj, "_ast_values", None)
        if vals is None:
            # an instance of a user generic class: its own class carries the parameters
            return ref_sub(type(obj), tp) if isinstance(type(obj), GenericTypeMeta) else None
        if len(vals) != len(args):
            return None
        res = [member(v, a) for v, a in zip(vals, args)]
        return None if any(r is None for r in res) else all(res)
    if isinstance(tp, type):
        try:
            return isinstance(obj, tp)
        except TypeError:
            return None
    return None


def ref_sub(a, b):
    """Reference model of the subtype relation on the structured types that
    patterns are made of (executable specification written from the meaning
    of the types, independent of funsor.typing's code): True / False, or None
    where the model does not speak (bare containers against parametrised ones)."""
    import typing

    from funsor.typing import GenericTypeMeta, get_args, get_origin

    if type(a).__name__ == "_RuntimeSubclassCheckMeta":
        a = a.__args__[0]
    if type(b).__name__ == "_RuntimeSubclassCheckMeta":
        b = b.__args__[0]
    if a is object:
        a = typing.Any
    if b is object:
        b = typing.Any
    if b is typing.Any:
        return True
    if a is typing.Any:
        return False
    oa, ob = get_origin(a), get_origin(b)
    aargs, bargs = get_args(a), get_args(b)
    if oa is typing.Union:
        res = [ref_sub(m, b) for m in aargs]
        return None if any(x is None for x in res) else all(res)
    if ob is typing.Union:
        res = [ref_sub(a, m) for m in bargs]
        if any(x is True for x in res):
            return True
        return None if any(x is None for x in res) else False
    for base, tbase in ((tuple, typing.Tuple), (frozenset, typing.FrozenSet)):
        if ob in (base, tbase):
            if not (isinstance(oa, type) and issubclass(oa, base)) and oa is not tbase:
                return False
            if not bargs:
                return True
            if not aargs:
                return None
            if base is frozenset:
                return ref_sub(aargs[0], bargs[0])
            if bargs[-1] is Ellipsis:
                if aargs[-1] is Ellipsis:
                    return ref_sub(aargs[0], bargs[0])
                res = [ref_sub(x, bargs[0]) for x in aargs]
            else:
                if aargs[-1] is Ellipsis or len(aargs) != len(bargs):
                    return False
                res = [ref_sub(x, y) for x, y in zip(aargs, bargs)]
            if any(x is False for x in res):
                return False
            return None if any(x is None for x in res) else True
        if oa in (base, tbase):
            return False if isinstance(ob, type) and not issubclass(base, ob) else None
    if isinstance(b, GenericTypeMeta):
        if not isinstance(a, type) or not issubclass(oa if isinstance(oa, type) else object, ob):
            return False
        if not bargs:
            return True
        if not isinstance(a, GenericTypeMeta) or len(aargs) != len(bargs):
            return False
        res = [ref_sub(x, y) for x, y in zip(aargs, bargs)]
        if any(x is False for x in res):
            return False
        return None if any(x is None for x in res) else True
    if isinstance(a, type) and isinstance(b, type):
        try:
            return issubclass(oa if isinstance(a, GenericTypeMeta) else a, b)
        except TypeError:
            return None
    return None


def _isolation_checks():
    """Rules registered for one key / one interpretation object / one interpretation class answer
    there and nowhere else; stacked registrations all take effect and return the plain function."""
    import typing

    import funsor
    from funsor.interpretations import DispatchedInterpretation, StatefulInterpretation
    from funsor.registry import KeyedRegistry
    from funsor.terms import Funsor, Number, Variable

    def bad(msg):
        return {"invariant": "dispatch-leaks-between-registries", "message": msg, "fingerprint": "dispatch-leaks-between-registries"}

    class K1:
        pass

    class K2:
        pass

    reg = KeyedRegistry(default=lambda *a: None)

    def f1(x):
        return "k1"

    def f2(x):
        return "k2"

    reg.register(K1, Funsor)(f1)
    reg.register(K2, Number)(f2)
    x = Variable("x", funsor.Real)
    one = Number(1.0)
    if reg.dispatch(K1, one) is not f1 or reg.dispatch(K2, one) is not f2:
        return bad("KeyedRegistry: rules registered for two keys do not answer for their own key")
    got = reg.dispatch(K2, x)
    if got is f1 or got is f2:
        return bad("KeyedRegistry: a Variable dispatched for key K2 (pattern Number) ran %r" % (getattr(got, "__name__", got),))
    # a parametrised key registers and dispatches under its origin class
    reg.register(Number[int, int], int)(f1)
    if reg.dispatch(Number, 3) is not f1 or reg.dispatch(Number[float, str], 3) is not f1:
        return bad("KeyedRegistry: a rule registered under a parametrised key is not found under the origin class")
    if Number in KeyedRegistry(default=lambda *a: None):
        return bad("KeyedRegistry: a fresh registry claims to contain a key registered in another registry")
    # stacked registrations
    reg2 = KeyedRegistry(default=lambda *a: None)

    @reg2.register(K1, int)
    @reg2.register(K1, str)
    @reg2.register(K1, Funsor, Funsor)
    def stacked(*args):
        return "stacked"

    if not callable(stacked) or getattr(stacked, "__name__", "") != "stacked":
        return bad("KeyedRegistry.register did not return the plain function (got %r)" % (stacked,))
    for args in ((3,), ("s",), (x, one)):
        if reg2.dispatch(K1, *args) is not stacked:
            return bad("stacked registrations: arguments %r do not reach the rule" % (args,))
    if reg2.dispatch(K1, 2.5) is stacked:
        return bad("stacked registrations: a float reached a rule registered for int and str")
    # registering again under the same pattern, written out a second time, replaces the rule
    from funsor.typing import GenericTypeMeta

    class Gen2(metaclass=GenericTypeMeta):
        pass

    def writes():
        return [
            (Gen2[object, str],),
            (funsor.terms.Binary[funsor.ops.AddOp, object, Variable],),
            (typing.Tuple[object, int],),
            (Gen2[int], typing.FrozenSet[str]),
        ]

    for i in range(len(writes())):
        reg3 = KeyedRegistry(default=lambda *a: None)
        first, second = writes()[i], writes()[i]
        reg3.register(K1, *first)(lambda *a: "old")
        reg3.register(K1, *second)(lambda *a: "new")
        disp = reg3.registry[K1]
        rules = [fn for sig, fn in disp.funcs.items() if fn is not disp.default]
        if len(rules) != 1 or rules[0]() != "new":
            return bad("a rule registered again under the same pattern %r (written out a second time) did not replace the first: %d rules are registered for it" % (first, len(rules)))
        for a, b in zip(first, second):
            if isinstance(a, GenericTypeMeta) and a is not b:
                return bad("the same parametrised pattern written twice gives two different classes: %r" % (a,))
    # interpretation objects and classes
    d1, d2 = DispatchedInterpretation("iso1"), DispatchedInterpretation("iso2")
    d1.register(funsor.terms.Unary, funsor.ops.NegOp, Variable)(lambda op, a: "d1")
    if d2.dispatch(funsor.terms.Unary, funsor.ops.neg, x)(funsor.ops.neg, x) is not None:
        return bad("a rule registered on one DispatchedInterpretation answers on another")

    class SA(StatefulInterpretation):
        pass

    class SB(SA):
        pass

    class SC(StatefulInterpretation):
        pass

    SA.register(funsor.terms.Unary, funsor.ops.NegOp, Variable)(lambda state, op, a: "sa")
    SB.register(funsor.terms.Unary, funsor.ops.ExpOp, Variable)(lambda state, op, a: "sb")
    if SA.registry is SB.registry or SA.registry is SC.registry:
        return bad("two StatefulInterpretation classes share one registry")
    for cls, op, want in ((SA, funsor.ops.neg, "sa"), (SB, funsor.ops.exp, "sb")):
        rule = cls.dispatch(funsor.terms.Unary, op, x)
        if rule(None, op, x) != want:
            return bad("StatefulInterpretation %s: its own rule is not selected" % cls.__name__)
    for cls, op in ((SA, funsor.ops.exp), (SC, funsor.ops.neg), (SC, funsor.ops.exp), (SB, funsor.ops.neg)):
        rule = cls.dispatch(funsor.terms.Unary, op, x)
        if rule(None, op, x) is not None:
            return bad("StatefulInterpretation %s answers with a rule registered on another class (%s)" % (cls.__name__, op))
    return None


def userland_dispatch(payload):
    """A user-defined registry whose patterns parametrise tuples, variadic
    tuples, unions and frozensets; the same argument objects are dispatched in
    seeded different orders (fresh registry each time, cache drops in between):
    the rule must be a function of the argument types alone."""
    from sim.iso import fork_call

    res = fork_call(_userland_session, (payload,), timeout=850)
    if res.get("status") != "ok":
        raise RuntimeError("userland session failed: %s" % (res.get("err") or res))
    return res["res"]


def _userland_session(payload):
    import numbers
    import typing
    from collections import OrderedDict

    import numpy as np

    import funsor
    from funsor.domains import BintType, RealsType
    from funsor.registry import KeyedRegistry
    from funsor.terms import Funsor, Number, Variable

    r = W.rng(payload["seed"])
    mon = Monitor()
    mon.install()

    class UKey:
        pass

    from funsor.typing import GenericTypeMeta

    class Box(metaclass=GenericTypeMeta):  # a user generic class with a free number of parameters
        pass

    patterns = [
        ("any", (object,)),
        ("fs", (frozenset,)),
        ("fs_str", (typing.FrozenSet[str],)),
        ("fs_int", (typing.FrozenSet[int],)),
        ("fs_var", (typing.FrozenSet[Variable],)),
        ("fs_bintvar", (typing.FrozenSet[Variable[str, BintType]],)),
        ("tup", (tuple,)),
        ("tup_int_var", (typing.Tuple[int, ...],)),
        ("tup_int_int", (typing.Tuple[int, int],)),
        ("tup_int_str", (typing.Tuple[int, str],)),
        ("tup_str_var", (typing.Tuple[str, ...],)),
        ("tup_nested", (typing.Tuple[typing.Tuple[str, BintType], ...],)),
        ("funsor", (Funsor,)),
        ("tensor", (funsor.Tensor,)),
        ("number", (Number,)),
        ("variable", (Variable,)),
        ("intstr", ((int, str),)),
        ("f_fs", (Funsor, frozenset)),
        ("t_fsbint", (funsor.Tensor, typing.FrozenSet[Variable[str, BintType]])),
        ("f_tup", (Funsor, tuple)),
        ("t_tupint", (funsor.Tensor, typing.Tuple[int, ...])),
        ("u_narrow", (typing.Union[funsor.Tensor, Number],)),
        ("u_wide", (typing.Union[Funsor, numbers.Number],)),
        ("u_intfloat", (typing.Union[int, float],)),
        ("pynumber", (numbers.Number,)),
        ("tup_u_narrow", (typing.Tuple[typing.Union[Number, funsor.Tensor], ...],)),
        ("tup_funsor", (typing.Tuple[Funsor, ...],)),
        ("tup_u_wide", (typing.Tuple[typing.Union[Funsor, numbers.Number], ...],)),
        ("fs_u", (typing.FrozenSet[typing.Union[Variable, Number]],)),
        ("fs_tup", (typing.FrozenSet[tuple],)),
        ("fs_tupint", (typing.FrozenSet[typing.Tuple[int, int]],)),
        ("box", (Box,)),
        ("box_i", (Box[int],)),
        ("box_is", (Box[int, str],)),
        ("box_os", (Box[object, str],)),
        ("box_ib", (Box[int, bytes],)),
        ("f_var_nt", (Funsor, [Number, funsor.Tensor])),
        ("f_var_f", (Funsor, [Funsor])),
        ("t_var_n", (funsor.Tensor, [Number])),
        ("var_is", ([int, str],)),
        # patterns taken from the rule's own annotations (registered without explicit types); the rule
        # has a leading un-annotated parameter and a return annotation, as stateful interpretations' rules do
        ("ann_bytes", (bytes,)),
        ("ann_tensor_str", (funsor.Tensor, str)),
    ]
    annotated = {"ann_bytes": {"a": bytes, "return": str}, "ann_tensor_str": {"a": funsor.Tensor, "b": str, "return": Funsor}}

    def make(subset=None):
        reg = KeyedRegistry(default=lambda *a: None)
        fns = {}
        for name, types in (patterns if subset is None else subset):
            if name in annotated:
                if len(types) == 1:
                    def fn(state, a, _name=name):
                        return _name
                else:
                    def fn(state, a, b, _name=name):
                        return _name

                fn.__annotations__ = dict(annotated[name])
                fn.__name__ = fn.__qualname__ = "user_rule_" + name
                reg.register(UKey)(fn)  # no explicit types: the pattern comes from the annotations
                continue

            def fn(*args, _name=name):
                return _name

            fn.__name__ = fn.__qualname__ = "user_rule_" + name
            reg.register(UKey, *types)(fn)
        return reg

    def selected_ok(got, args, pats):
        """The selected rule's pattern contains the arguments, and no other
        pattern of the registry that contains them is strictly more specific."""
        byname = dict(("user_rule_" + n, tps) for n, tps in pats)
        matching = [(n, tps) for n, tps in pats if contains(tps, args) is True]
        if got.startswith("raises:"):
            return None  # deep_type refuses inhomogeneous sets: no dispatch happened
        if got not in byname:
            # the default rule ran: no pattern may contain the arguments
            if got == "<default>" or not got.startswith("user_rule_"):
                if matching and all(contains(tps, args) is not None for _, tps in pats):
                    return {
                        "invariant": "matching-rule-not-selected",
                        "message": "arguments %s are members of pattern %s but the default rule was selected" % (repr(args)[:160], matching[0][0]),
                        "fingerprint": "matching-rule-not-selected",
                    }
            return None
        types = byname[got]
        if contains(types, args) is False:
            return {
                "invariant": "selected-rule-does-not-match",
                "message": "arguments %s were dispatched to %s whose pattern %r they are not members of" % (repr(args)[:160], got, types),
                "fingerprint": "selected-rule-does-not-match",
            }
        for n, tps in matching:
            if "user_rule_" + n == got:
                continue
            if below(tps, types) is True and below(types, tps) is False:
                return {
                    "invariant": "winner-not-most-specific",
                    "message": "arguments %s were dispatched to %s %r although the matching pattern %s %r is strictly more specific" % (repr(args)[:160], got, types, n, tps),
                    "fingerprint": "winner-not-most-specific",
                }
        return None

    i2 = Variable("i", funsor.Bint[2])
    j3 = Variable("j", funsor.Bint[3])
    x = Variable("x", funsor.Real)
    t = funsor.Tensor(np.arange(3.0), OrderedDict(j=funsor.Bint[3]))
    singles = [
        frozenset(),
        frozenset({"a", "b"}),
        frozenset({1, 2, 3}),
        frozenset({i2}),
        frozenset({i2, j3}),
        frozenset({x}),
        frozenset({i2, x}),
        (),
        (1,),
        (1, 2),
        (1, 2, 3),
        (1, "a"),
        ("a", "b"),
        (1.5,),
        (("i", funsor.Bint[2]), ("j", funsor.Bint[3])),
        t,
        Number(1),
        Number(1.5),
        i2,
        x,
        3,
        "s",
        2.5,
        (t, Number(1)),
        (Number(1), Number(2.5)),
        (t, 2.5),
        (t, x),
        frozenset({i2, Number(1)}),
        frozenset({(1, 2), (3, 4)}),
        frozenset({(1, 2), (3, 4.5)}),
    ]
    # seeded containers, including inhomogeneous ones (deep_type may refuse those)
    atoms = [1, 2, 4, 2.5, "a", "b", (1, 2), (1, 2.5), (3,), ("a", 1), i2, j3, x, Number(1), Number(1.5), t]
    for _ in range(payload.get("containers", 40)):
        elems = [r.choice(atoms) for _ in range(r.randint(1, 4))]
        singles.append(frozenset(elems) if r.random() < 0.7 else tuple(elems))
    singles += [Box(), Box[int](), Box[int, str](), Box[int, bytes](), Box[str, str](), b"raw"]
    argsets = [(a,) for a in singles]
    argsets += [(t, "s"), (t, Number(1)), (t, Number(1), t), (t, t, t), (x, Number(1), Number(2.5)), (t, Number(1), x), (Number(1), t, Number(2)), (1, "a", 2), (1, 2, 3), (1, 2.5)]
    for a in (t, Number(2.0), x):
        for b in (frozenset(), frozenset({i2}), frozenset({x}), frozenset({"q"}), (), (1, 2), ("a",)):
            argsets.append((a, b))
    tables = []
    violations = []
    faults = {}
    dispatches = 0
    # agreement of deep_isinstance with the reference membership model, for every
    # (argument object, pattern component) pair of this registry
    from funsor.typing import deep_isinstance

    membership_checks = 0
    comps = []
    for name, types in patterns:
        for t in types:
            comps.extend(t if isinstance(t, (tuple, list)) else [t])
    objs = singles + [frozenset({j3}), frozenset({x, Variable("y", funsor.Real)}), ((1, 2), (3,)), (i2, x), (t,)]
    bypattern = dict(("user_rule_" + name, types) for name, types in patterns)

    def contains(types, args):
        """Reference: are the arguments members of the pattern? (None: not modelled)"""
        if types and isinstance(types[-1], list):
            # variadic tail: every remaining argument is a member of one of the listed classes
            head, tail = types[:-1], tuple(types[-1])
            if len(args) < len(head):
                return False
            types = tuple(head) + (tail,) * (len(args) - len(head))
        if len(types) != len(args):
            return False
        res = []
        for tp, a in zip(types, args):
            alts = tp if isinstance(tp, tuple) else (tp,)
            m = [member(a, alt) for alt in alts]
            res.append(True if any(x is True for x in m) else (None if any(x is None for x in m) else False))
        if any(x is False for x in res):
            return False
        return None if any(x is None for x in res) else True

    def below(p, q):
        """Reference: is pattern p at least as specific as q? (single alternatives only)"""
        if any(isinstance(t, (tuple, list)) for t in tuple(p) + tuple(q)) or len(p) != len(q):
            return None
        res = [ref_sub(a, b) for a, b in zip(p, q)]
        if any(x is False for x in res):
            return False
        return None if any(x is None for x in res) else True

    # the subtype relation against the reference model, all pairs of pattern components
    from funsor.typing import deep_issubclass

    model_pairs = 0
    for a in comps:
        for b in comps:
            want = ref_sub(a, b)
            if want is None:
                continue
            model_pairs += 1
            try:
                got = bool(deep_issubclass(a, b))
            except Exception:  # noqa
                continue
            if got != want and not violations:
                violations.append(
                    {
                        "invariant": "subtype-disagrees-with-reference-model",
                        "message": "deep_issubclass(%r, %r) is %s; member-wise / element-wise reading of the two types says %s" % (a, b, got, want),
                        "fingerprint": "subtype-disagrees-with-reference-model",
                    }
                )
    from funsor.typing import deep_type

    self_type_checks = 0
    refused = 0
    for o in objs:
        try:
            tp = deep_type(o)
        except NotImplementedError:
            refused += 1
            continue
        self_type_checks += 1
        if member(o, tp) is False and not violations:
            violations.append(
                {
                    "invariant": "not-instance-of-own-type",
                    "message": "deep_type(%s) = %r, but the object is not a member of that type (element-wise membership)" % (repr(o)[:120], tp),
                    "fingerprint": "not-instance-of-own-type",
                }
            )
        if isinstance(o, frozenset) and len(o) > 1:
            # the same set built in other insertion orders
            for _ in range(2):
                elems = list(o)
                r.shuffle(elems)
                try:
                    tp2 = deep_type(frozenset(elems))
                except NotImplementedError:
                    tp2 = None
                if tp2 is not tp and not violations:
                    violations.append(
                        {
                            "invariant": "deep-type-frozenset-order",
                            "message": "deep_type of %s is %r, and %r for the same set built in another order" % (repr(o)[:120], tp, tp2),
                            "fingerprint": "deep-type-frozenset-order",
                        }
                    )
    for o in objs:
        for tp in comps:
            want = member(o, tp)
            if want is None:
                continue
            try:
                got = bool(deep_isinstance(o, tp))
            except Exception:  # noqa
                continue
            membership_checks += 1
            if got != want and not violations:
                violations.append(
                    {
                        "invariant": "subtype-disagrees-with-membership",
                        "message": "deep_isinstance(%s, %r) is %s but the object %s an instance of that type (element-wise / field-wise membership)"
                        % (repr(o)[:80], tp, got, "is" if want else "is not"),
                        "fingerprint": "subtype-disagrees-with-membership",
                    }
                )
    for rep in range(payload.get("reps", 6)):
        reg = make()
        order = list(range(len(argsets)))
        r.shuffle(order)
        table = {}
        for idx in order:
            if r.random() < 0.15:
                for d in reg.registry.values():
                    d._cache.clear()
                faults["cache_drop"] = faults.get("cache_drop", 0) + 1
                mon.checked.clear()
            if r.random() < 0.05:
                from funsor.typing import deep_issubclass

                deep_issubclass.cache_clear()
                faults["lru_drop"] = faults.get("lru_drop", 0) + 1
            try:
                fn = reg.dispatch(UKey, *argsets[idx])
                table[idx] = getattr(fn, "__name__", "<default>")
            except Exception as e:  # noqa
                table[idx] = "raises:" + type(e).__name__
            dispatches += 1
            v = selected_ok(table[idx], argsets[idx], patterns)
            if v and not violations:
                violations.append(v)
        tables.append(table)
        mon.checked.clear()
    # registries are separate objects: what is registered in one place must not answer elsewhere
    v = _isolation_checks()
    if v and not violations:
        violations.append(v)
    # small registries: every pair of patterns in both registration orders, and
    # seeded subsets in seeded orders; the winner is checked against the
    # reference reading of the patterns
    subsets = []
    for i in range(len(patterns)):
        for j in range(i + 1, len(patterns)):
            if len(patterns[i][1]) == len(patterns[j][1]) or any(isinstance(t, list) for t in patterns[i][1] + patterns[j][1]):
                subsets.append([patterns[i], patterns[j]])
                subsets.append([patterns[j], patterns[i]])
    for _ in range(payload.get("subsets", 60)):
        sub = r.sample(patterns, r.randint(3, 7))
        subsets.append(sub)
    small = 0
    for sub in subsets:
        reg = make(sub)
        arity = {len(types) for _, types in sub}
        variadic = any(isinstance(t, list) for _, types in sub for t in types)
        for args in argsets:
            if len(args) not in arity and not variadic:
                continue
            try:
                fn = reg.dispatch(UKey, *args)
                got = getattr(fn, "__name__", "<default>")
            except Exception as e:  # noqa
                continue
            small += 1
            v = selected_ok(got, args, sub)
            if v and not violations:
                v["message"] += " [registry of %s, registered in this order]" % ([n for n, _ in sub],)
                violations.append(v)
        if violations:
            break
    ref = tables[0]
    for rep, table in enumerate(tables[1:], 1):
        for idx, rule in table.items():
            if ref[idx] != rule and not violations:
                violations.append(
                    {
                        "invariant": "dispatch-depends-on-history",
                        "message": "user registry: arguments %r resolved to %s in one order of first use and to %s in another"
                        % (tuple(type(a).__name__ if not isinstance(a, (tuple, frozenset)) else a for a in argsets[idx]), ref[idx], rule),
                        "fingerprint": "dispatch-depends-on-history",
                    }
                )
    violations.extend(v for v in mon.violations if v["invariant"] == "winner-not-most-specific")
    mon.uninstall()
    seen_fp = set()
    distinct = []
    for v in violations:
        if v["fingerprint"] not in seen_fp:
            seen_fp.add(v["fingerprint"])
            distinct.append(v)
    return {
        "violations": distinct[:4],
        "stats": {"runs": 0, "dispatch_calls": mon.calls, "userland_dispatches": dispatches, "userland_argument_tuples": len(argsets), "membership_checks": membership_checks, "self_type_checks": self_type_checks, "inhomogeneous_sets_refused": refused, "reference_model_pairs": model_pairs, "small_registries": len(subsets), "small_registry_dispatches": small, "faults": faults},
        "table": {},
    }


def instance_checks(payload):
    """Every term is an instance of its own precise type and of every
    generalisation of it (weaken one parameter)."""
    from sim.iso import fork_call

    res = fork_call(_instance_session, (payload,), timeout=1100)
    if res.get("status") != "ok":
        raise RuntimeError("instance session failed: %s" % (res.get("err") or res))
    return res["res"]


def _weakenings(tp):
    import typing

    from funsor.typing import GenericTypeMeta, get_args, get_origin

    out = []
    origin = get_origin(tp)
    args = get_args(tp)
    if not isinstance(tp, GenericTypeMeta) or not args:
        return out
    out.append(origin)
    for i, a in enumerate(args):
        cands = [typing.Any]
        if isinstance(a, GenericTypeMeta) and get_args(a):
            cands.append(get_origin(a))
        if isinstance(a, type):
            cands.extend(b for b in a.__mro__[1:3] if b is not object)
        for c in cands:
            try:
                out.append(origin[args[:i] + (c,) + args[i + 1 :]])
            except Exception:  # noqa
                pass
    return out


def _instance_session(payload):
    import funsor
    from funsor.typing import deep_isinstance, deep_type

    from sim import execs, oracle

    stats = {"runs": 0, "terms": 0, "instance_checks": 0, "frozenset_checks": 0, "precise_type_checks": 0, "membership_checks": 0}
    violations = []
    r = W.rng(payload["seed"])
    from funsor.typing import get_origin

    for item in payload["programs"]:
        env = {}
        oracle.set_carrier(item.get("family"))
        try:
            execs.run_program(item["program"], r.choice(["lazy", "reflect", "normalize", "eager"]), "none", env=env)
        except Exception:  # noqa
            continue
        stats["runs"] += 1
        seen = set()
        stack = list(env.values())
        # nodes rebuilt through their precise class with evaluated children
        for v in list(env.values()):
            if isinstance(v, funsor.terms.Funsor):
                for interp in ("lazy", "normalize", "reflect"):
                    try:
                        with execs.INTERPS[interp]:
                            stack.append(funsor.reinterpret(v))
                    except Exception:  # noqa
                        pass
        while stack and not violations:
            x = stack.pop()
            if not isinstance(x, funsor.terms.Funsor) or id(x) in seen:
                continue
            seen.add(id(x))
            stats["terms"] += 1
            tp = deep_type(x)
            try:
                precise = get_origin(type(x))[tuple(map(deep_type, x._ast_values))]
            except Exception:  # noqa
                precise = None
            if precise is not None:
                stats["precise_type_checks"] += 1
                if precise is not type(x):
                    violations.append(
                        {
                            "invariant": "stale-precise-type",
                            "message": "a term's class is %r but the precise type of its arguments is %r" % (type(x), precise),
                            "fingerprint": "stale-precise-type",
                        }
                    )
                    break
                want = member(x, precise)
                if want is False:
                    violations.append({"invariant": "subtype-disagrees-with-membership", "message": "a term is not a member of the precise type of its own arguments %r" % (precise,), "fingerprint": "subtype-disagrees-with-membership"})
                    break
            stats["instance_checks"] += 1
            if not deep_isinstance(x, tp) or not isinstance(x, tp) or not isinstance(x, funsor.typing.get_origin(tp)):
                violations.append({"invariant": "not-instance-of-own-type", "message": "a %r is not an instance of its own precise type" % (tp,), "fingerprint": "not-instance-of-own-type"})
                break
            for g in _weakenings(tp):
                stats["instance_checks"] += 1
                if not deep_isinstance(x, g) or not issubclass(tp, g):
                    violations.append(
                        {"invariant": "not-instance-of-generalisation", "message": "a term of type %r is not an instance of the generalisation %r" % (tp, g), "fingerprint": "not-instance-of-generalisation"}
                    )
                    break
            for v in x._ast_values:
                if isinstance(v, funsor.terms.Funsor):
                    stack.append(v)
                elif isinstance(v, (tuple, frozenset)):
                    stack.extend(c for c in v if isinstance(c, funsor.terms.Funsor))
                    if isinstance(v, frozenset) and len(v) > 1:
                        stats["frozenset_checks"] += 1
                        a = repr(deep_type(v))
                        b = repr(deep_type(frozenset(reversed(list(v)))))
                        c = repr(deep_type(frozenset(sorted(v, key=repr))))
                        if not (a == b == c):
                            violations.append(
                                {"invariant": "deep-type-frozenset-order", "message": "deep_type of a frozenset depends on element order: %s / %s / %s" % (a, b, c), "fingerprint": "deep-type-frozenset-order"}
                            )
    return {"violations": violations[:1], "stats": stats, "table": {}}


###############################################################################
# runner side


def cross_check(jobs, results):
    """World / first-use-order independence: merge the tables of all sessions."""
    merged = {}
    out = []
    for job, res in zip(jobs, results):
        if job["fn"] != "run_session" or not res or res.get("status") != "ok":
            continue
        for k, v in res["res"]["table"].items():
            prev = merged.setdefault(k, (v, job))
            CROSS["entries"] += 1
            if prev[0] != v and len(out) < 3:
                out.append(
                    (
                        dict(job, fn="world_replay", payload=dict(job["payload"], expect={"key": k, "rule": prev[0], "world": prev[1]["world"]})),
                        {
                            "invariant": "dispatch-depends-on-world",
                            "message": "%s dispatched to %s in world %s and to %s in world %s"
                            % (k, prev[0], prev[1]["world"]["index"], v, job["world"]["index"]),
                            "fingerprint": "dispatch-depends-on-world",
                        },
                    )
                )
    CROSS["distinct"] = len(merged)
    # reach probe: how many (dispatcher, shallow type tuple) groups contain deep
    # type tuples that resolve to different rules (only those can expose a cache
    # keyed too coarsely)
    import re

    groups = {}
    for k, (v, _) in merged.items():
        lab, types = json.loads(k)
        shallow = tuple(re.sub(r"\[.*", "", t) for t in types)
        groups.setdefault((lab, shallow), set()).add(v)
    CROSS["shallow_groups"] = len(groups)
    CROSS["shallow_groups_with_several_rules"] = sum(1 for g in groups.values() if len(g) > 1)
    CROSS["examples"] = [list(k) + [sorted(v)] for k, v in groups.items() if len(v) > 1][:5]
    return out


CROSS = {"entries": 0, "distinct": 0}


def post_plan_extra(seed, tier, progs):
    return []


def summarize(jobs, results, tier):
    tot = {}
    faults = {}
    samples = []
    for job, res in zip(jobs, results):
        if job["fn"] not in ("run_session", "instance_checks", "userland_dispatch") or not res or res.get("status") != "ok":
            continue
        st = res["res"]["stats"]
        for k, v in st.items():
            if k == "faults":
                for a, b in v.items():
                    faults[a] = faults.get(a, 0) + b
            elif isinstance(v, int):
                tot[k] = tot.get(k, 0) + v
        if len(samples) < 2 and res["res"].get("table"):
            items = list(res["res"]["table"].items())[:3]
            samples.append([{"dispatcher_and_types": json.loads(k), "rule": v} for k, v in items])
    return {
        "evaluations": tot.get("dispatch_calls", 0),
        "distinct_nontrivial": CROSS["distinct"],
        "rule": "one evaluation = one monitored PartialDispatcher.partial_call made while sessions execute generated programs "
        "(all seven interpretation settings of the confluence engine) interleaved with dispatch-cache drops, lru-cache drops, "
        "collections, late registration of unrelated rules and replays; distinct_nontrivial = distinct (dispatcher, canonical "
        "argument-type tuple) entries in the table merged over all sessions and hash worlds, each checked for 'winner is at least "
        "as specific as every matching registered pattern' and for being a function of the types alone.",
        "samples": samples or [{"note": "none"}],
        "exhaustive": False,
        "programs_executed": tot.get("runs", 0),
        "type_tuples_checked_in_sessions": tot.get("distinct_type_tuples_checked", 0),
        "tuples_with_several_matching_patterns": tot.get("with_several_matching_patterns", 0),
        "merged_table_entries_compared": CROSS["entries"],
        "probe_shallow_type_groups": CROSS.get("shallow_groups", 0),
        "probe_shallow_type_groups_resolving_to_several_rules": CROSS.get("shallow_groups_with_several_rules", 0),
        "probe_examples": CROSS.get("examples", []),
        "shadow_registry_dispatches": tot.get("shadow_dispatches", 0),
        "synthesised_tuple_dispatches": tot.get("synthesised_dispatches", 0),
        "axiom_pool_sizes_sum": tot.get("axiom_pool", 0),
        "axiom_pairs_evaluated": tot.get("axiom_pairs", 0),
        "axiom_triples_covered": tot.get("axiom_triples", 0),
        "instance_checks": tot.get("instance_checks", 0),
        "userland_registry_dispatches": tot.get("userland_dispatches", 0),
        "membership_vs_reference_model_checks": tot.get("membership_checks", 0),
        "precise_type_checks": tot.get("precise_type_checks", 0),
        "container_self_type_checks": tot.get("self_type_checks", 0),
        "inhomogeneous_sets_refused_by_deep_type": tot.get("refused", 0) + tot.get("inhomogeneous_sets_refused", 0),
        "subtype_vs_reference_model_pairs": tot.get("reference_model_pairs", 0),
        "small_registries_built": tot.get("small_registries", 0),
        "small_registry_dispatches": tot.get("small_registry_dispatches", 0),
        "frozenset_order_checks": tot.get("frozenset_checks", 0),
        "terms_visited": tot.get("terms", 0),
        "faults_fired_by_kind": faults,
        "components": {
            "real": ["funsor.typing / funsor.registry (working tree)", "multipledispatch ordering and caches"],
            "stubbed": ["object hashes (seeded hook)", "automatic GC (disabled)"],
        },
    }
