"""C20 - terms and the arrays behind them are never mutated.

Engine `immut`: sessions run generated programs and a catalogue of public API
entry points under randomly chosen interpretations; two detector
configurations run as separate batches:
  snapshot : before every step, every leaf array and every funsor any session
             holds is fingerprinted; re-checked after the step, after every
             injected fault and at the end of the run (late writes via views);
  tripwire : every user-supplied array is read-only, so the first write
             through an operand raises at the offending funsor line.
Faults: exceptions at the n-th internal call of a step, collections, declined
rule firings, rules kept from firing on non-ground operands.  DESIGN.md 6 (C20)."""

import json

from sim import world as W

from . import c02

PROPERTY = "C20"
LEVEL = "exploration"
BUDGET = {"quick": 300, "thorough": 3000}
ASSUMPTIONS = [
    "the snapshot covers inputs, output, class, _ast_values identities and the bytes of every array reachable from a held term; "
    "lazy_property caches and profiling counters are deliberately not part of it (the property names inputs, output, data)",
    "tripwire: numpy's read-only flag is inherited by views, so a write through any view of a user array raises ValueError at the writing line",
    "numpy backend",
]

API_STEPS = [
    "reinterpret",
    "optimizer",
    "normalize",
    "reduce_all",
    "align",
    "to_data",
    "materialize",
    "sample",
    "adjoint",
    "subs_slice",
    "subs_index",
    "lambda_getitem",
    "stack_cat",
    "einsum",
    "sum_product",
    "sequential_sum_product",
    "gaussian_ops",
    "gaussian_sample",
    "moment_matching",
    "integrate",
    "scatter",
    "independent",
    "compile",
    "unary_inplace_candidates",
    "binary_views",
    "logspace_contraction",
    "affine",
    "recipes_ffbs",
    "partial_sum_product",
    "joint_mixture",
    "approximate",
    "kernels_on_edge_values",
    "gaussian_constructors",
    "linear_algebra_on_edge_matrices",
    "ops_sweep",
]


def plan(seed, tier):
    nprog = 4800 if tier == "quick" else 48000
    ngen = 16
    jobs = []
    for g in range(ngen):
        jobs.append(
            {
                "world": c02.GEN_WORLD,
                "fn": "gen_programs",
                "payload": {"seed": "%s/c20gen/%d" % (seed, g), "count": nprog // ngen, "tier": tier, "corpus": g < 2},
                "timeout": 900,
            }
        )
    return jobs


def gen_programs(payload):
    return c02.gen_programs(payload)


def post_plan(seed, tier, jobs, results):
    nworlds = 8 if tier == "quick" else 16
    worlds = [W.make_world(seed, i) for i in range(nworlds)]
    for i, w in enumerate(worlds):
        w["typecheck"] = 1 if i % 4 == 3 else 0
    progs = []
    for job, res in zip(jobs, results):
        if res and res.get("status") == "ok":
            progs.extend(res["res"]["programs"])
    out = []
    chunk = 12
    r = W.rng(seed, "c20", "cfg")
    for ci in range(0, len(progs), chunk):
        out.append(
            {
                "world": worlds[(ci // chunk) % nworlds],
                "fn": "run_sessions",
                "payload": {
                    "programs": progs[ci : ci + chunk],
                    "detector": "snapshot" if (ci // chunk) % 2 == 0 else "tripwire",
                    "seed": "%s/c20/%d" % (seed, ci),
                },
                "timeout": 1200,
            }
        )
    return out


###############################################################################
# child side


class Violation(Exception):
    def __init__(self, invariant, message):
        super().__init__(message)
        self.invariant = invariant
        self.message = message


def _array_sig(arr):
    import hashlib

    import numpy as np

    a = np.ascontiguousarray(arr)
    return (str(a.dtype), a.shape, hashlib.sha1(a.tobytes()).hexdigest())


def _arrays_of(x, out, depth=0):
    import numpy as np

    import funsor

    if isinstance(x, np.ndarray):
        out.append(x)
    elif isinstance(x, funsor.terms.Funsor):
        for v in x._ast_values:
            _arrays_of(v, out, depth + 1)
    elif isinstance(x, (tuple, frozenset, list)):
        for v in x:
            _arrays_of(v, out, depth + 1)
    elif isinstance(x, dict):
        for v in x.values():
            _arrays_of(v, out, depth + 1)


class Watch:
    def __init__(self):
        self.snap = {}  # id -> (obj, snapshot)
        self.arrays = {}  # id -> (array, sig, label)
        self.checks = 0
        self.objects = 0

    def term_snapshot(self, x):
        import numpy as np

        arrs = []
        _arrays_of(x, arrs)
        # the data a term exposes: every array-valued instance attribute
        # (Tensor.data, Gaussian.white_vec / prec_sqrt, ...), by identity and bytes
        attrs = tuple(
            (k, id(v), _array_sig(v))
            for k, v in sorted(vars(x).items())
            if isinstance(v, np.ndarray) and not k.startswith("_")
        )
        return (
            type(x).__name__,
            tuple((k, repr(v)) for k, v in x.inputs.items()),
            repr(x.output),
            tuple(id(v) for v in x._ast_values),
            tuple(_array_sig(a) for a in arrs[:8]),
            attrs,
        )

    def add_term(self, label, x):
        import funsor

        if isinstance(x, funsor.terms.Funsor) and id(x) not in self.snap:
            self.snap[id(x)] = (x, self.term_snapshot(x), label)
            self.objects += 1

    def add_array(self, label, arr):
        if id(arr) not in self.arrays:
            self.arrays[id(arr)] = (arr, _array_sig(arr), label)

    def verify(self, where):
        self.checks += 1
        for aid, (arr, sig, label) in self.arrays.items():
            now = _array_sig(arr)
            if now != sig:
                raise Violation(
                    "array-mutated",
                    "%s: user-supplied array %s changed (dtype/shape/bytes %s -> %s)" % (where, label, sig[:2] + (sig[2][:8],), now[:2] + (now[2][:8],)),
                )
        for oid, (x, snap, label) in self.snap.items():
            now = self.term_snapshot(x)
            if len(now[5]) != len(snap[5]):  # array attributes cached later are not part of the snapshot
                names = {a[0] for a in snap[5]}
                now = now[:5] + (tuple(a for a in now[5] if a[0] in names),)
            if now != snap:
                fields = ["class", "inputs", "output", "ast_values", "data", "array attributes"]
                diff = [f for f, a, b in zip(fields, snap, now) if a != b]
                raise Violation(
                    "term-mutated",
                    "%s: previously obtained funsor %s (%s) changed in %s: %r -> %r"
                    % (where, label, snap[0], diff, [a for a, b in zip(snap, now) if a != b][0], [b for a, b in zip(snap, now) if a != b][0]),
                )


def _interp(name):
    from sim import execs

    return execs.INTERPS[name]


class ApiCtx:
    """Leaf material for the API catalogue."""

    def __init__(self, r, watch, tripwire):
        from collections import OrderedDict

        import numpy as np

        import funsor

        self.r = r
        self.np = np
        self.f = funsor
        self.held = []
        self.watch = watch
        self.tripwire = tripwire
        self.OD = OrderedDict
        g = np.random.Generator(np.random.PCG64(r.randrange(2**31)))
        self.g = g
        self.a_ij = self.leaf("a_ij", g.uniform(0.2, 2.0, (2, 3)))
        self.b_jk = self.leaf("b_jk", g.uniform(0.2, 2.0, (3, 2)))
        self.c_i = self.leaf("c_i", g.uniform(0.2, 2.0, (2,)))
        self.e_ij2 = self.leaf("e_ij2", g.uniform(-1.0, 1.0, (2, 3, 2)))
        self.idx_i = self.leaf("idx_i", np.array([2, 0]))
        self.idx0 = self.leaf("idx0", np.array(2))
        self.idx0b = self.leaf("idx0b", np.array(5))
        self.trans = self.leaf("trans", g.uniform(-1.0, 0.0, (4, 2, 2)))
        A = g.standard_normal((2, 3, 3))
        P = A @ np.swapaxes(A, -1, -2) + 0.5 * np.eye(3)
        Q, _ = np.linalg.qr(g.standard_normal((3, 3)))
        # a square root of the precision that is not its own Cholesky factor
        self.prec_sqrt = self.leaf("prec_sqrt", np.linalg.cholesky(P) @ Q)
        l1 = g.uniform(-2.0, 1.0, (2, 3))
        l1[0, 1] = -np.inf
        l1[1, 2] = -np.inf
        l2 = g.uniform(-2.0, 1.0, (3, 2))
        l2[2, 0] = -np.inf
        self.l_ij = self.leaf("l_ij", l1)
        self.l_jk = self.leaf("l_jk", l2)
        self.white = self.leaf("white", g.standard_normal((2, 3)))
        # values the array kernels special-case: exact zeros (both signs), infinities, huge and tiny magnitudes
        self.z_ij = self.leaf("z_ij", np.array([[0.0, 1.5, -0.0], [np.inf, 1e-300, 0.0]]))
        self.zneg_ij = self.leaf("zneg_ij", np.array([[-np.inf, -2.0, 0.0], [1e300, -1e-300, 3.0]]))
        # matrices a caller may hold: a precision and its inverse computed numerically (symmetric up to
        # round-off only), and matrices whose Cholesky factorisation fails (singular, zero, indefinite)
        B = g.standard_normal((2, 3, 3))
        Pm = B @ np.swapaxes(B, -1, -2) + 0.3 * np.eye(3)
        self.prec_m = self.leaf("prec_m", Pm.copy())
        self.cov_m = self.leaf("cov_m", np.linalg.inv(Pm))
        self.prec_inv2 = self.leaf("prec_inv2", np.linalg.inv(np.linalg.inv(Pm)))
        self.mean_m = self.leaf("mean_m", g.standard_normal((2, 3)))
        v = g.standard_normal((3, 1))
        self.sing_m = self.leaf("sing_m", v @ v.T)
        self.zero_m = self.leaf("zero_m", np.zeros((2, 2)))
        self.indef_m = self.leaf("indef_m", np.array([[1.0, 2.0], [2.0, 1.0]]))
        self.ones_m = self.leaf("ones_m", np.ones((2, 3, 3)))
        # terms the session holds from the start: the catalogue operates on
        # previously obtained funsors (hash-consing hands the same objects back)
        for label, term in [
            ("held a_ij", self.T(self.a_ij, "ij")),
            ("held b_jk", self.T(self.b_jk, "jk")),
            ("held c_i", self.T(self.c_i, "i")),
            ("held e_ij", self.T(self.e_ij2, "ij")),
            ("held l_ij", self.T(self.l_ij, "ij")),
            ("held l_jk", self.T(self.l_jk, "jk")),
            ("held gaussian", self.gaussian()),
        ]:
            self.held.append(term)
            watch.add_term(label, term)

    def leaf(self, label, arr):
        self.watch.add_array(label, arr)
        if self.tripwire:
            arr.flags.writeable = False
        return arr

    def T(self, arr, names, dtype="real"):
        f = self.f
        inputs = self.OD((n, f.Bint[s]) for n, s in zip(names, arr.shape))
        return f.Tensor(arr, inputs, dtype)

    def gaussian(self):
        f = self.f
        inputs = self.OD(i=f.Bint[2], x=f.Real, y=f.Reals[2])
        return f.gaussian.Gaussian(white_vec=self.white, prec_sqrt=self.prec_sqrt, inputs=inputs)


def api_step(name, ctx, env_values):
    """One public-API operation; returns values to be held (and watched)."""
    f = ctx.f
    np = ctx.np
    ops = f.ops
    OD = ctx.OD
    a, b, c, e = ctx.T(ctx.a_ij, "ij"), ctx.T(ctx.b_jk, "jk"), ctx.T(ctx.c_i, "i"), ctx.T(ctx.e_ij2, "ij")
    held = [v for v in env_values if isinstance(v, f.terms.Funsor)]
    pick = (lambda: ctx.r.choice(held)) if held else (lambda: a)
    if name == "reinterpret":
        return [f.reinterpret(pick())]
    if name == "optimizer":
        with f.interpretations.lazy:
            x = (a * b).reduce(ops.add, "j") * c
            x = x.reduce(ops.add, "i")
        return [f.optimizer.apply_optimizer(x), f.optimizer.apply_optimizer(pick())]
    if name == "normalize":
        with f.interpretations.normalize:
            y = f.reinterpret(pick())
        return [y, f.reinterpret(y)]
    if name == "reduce_all":
        x = pick()
        out = []
        for op in (ops.add, ops.logaddexp, ops.max):
            try:
                out.append(x.reduce(op))
            except Exception:  # noqa
                pass
        return out
    if name == "align":
        x = pick()
        names = list(x.inputs)
        ctx.r.shuffle(names)
        return [x.align(tuple(names)), a.align(("j", "i")), e.align(("j", "i"))]
    if name == "to_data":
        d = f.to_data(a.align(("i", "j")), name_to_dim={"i": -2, "j": -1})
        back = f.to_funsor(d, f.Real, dim_to_name={-2: "i", -1: "j"})
        return [back, f.to_funsor(ctx.c_i, f.Reals[2]), f.to_funsor(2.5), f.to_funsor(ctx.a_ij, f.Reals[2, 3])]
    if name == "materialize":
        x = a(i=f.Variable("i", f.Bint[2])) + f.terms.Slice("j", 0, 3, 1, 3)
        return [a.materialize(x), a.materialize(f.terms.Slice("j", 1, 3, 1, 3))]
    if name == "sample":
        stream_a = a.sample(frozenset(["j"]))
        stream_b = (a + c).sample(frozenset(["i", "j"]), OD(p=f.Bint[2]))
        return [stream_a, stream_b]
    if name == "adjoint":
        with f.interpretations.lazy:
            x = (a * b).reduce(ops.add, frozenset(["i", "j", "k"]))
        res = f.adjoint.adjoint(ops.add, ops.mul, x)
        return list(res.values())[:3]
    if name == "subs_slice":
        v = a(j=f.terms.Slice("j", 1, 3, 1, 3))
        w = a(i="k")
        z = v + 1.0
        return [v, w, z, v * v]
    if name == "subs_index":
        idx = f.Tensor(ctx.idx_i, OD(i=f.Bint[2]), 3)
        return [a(j=idx), a(j=1), e(j=idx, i=0), a(i=f.Tensor(np.array([1, 0, 1]), OD(j=f.Bint[3]), 2))]
    if name == "lambda_getitem":
        lam = f.Lambda(f.Variable("i", f.Bint[2]), a)
        return [lam, lam[1], e[0], f.Lambda(f.Variable("j", f.Bint[3]), e)[2]]
    if name == "stack_cat":
        out = [f.terms.Stack("s", (a, a + 1.0)), f.terms.Cat("j", (a, a)), f.terms.Cat("i", (c, c))]
        # symbolic Cat / Stack / Slice terms indexed by caller-held index arrays (0-d and batched)
        with f.interpretations.lazy:
            lcat = f.terms.Cat("j", (a, a + 1.0, a))
            lstack = f.terms.Stack("s", (a, a + 1.0, c))
        for term, name_, size in ((lcat, "j", 9), (lstack, "s", 3)):
            for arr in ((ctx.idx0b if name_ == "j" else ctx.idx0), ctx.idx_i):
                try:
                    idx = f.Tensor(arr, OD(i=f.Bint[2]) if arr.ndim else OD(), size)
                    out.append(term(**{name_: idx}))
                except Exception:  # noqa
                    pass
        for arr in (ctx.idx0, ctx.idx_i):
            try:
                idx = f.Tensor(arr, OD(i=f.Bint[2]) if arr.ndim else OD(), 4)
                out.append(f.terms.Slice("q", 1, 9, 2, 10)(q=idx))
                with f.interpretations.lazy:
                    e2 = (f.Variable("q", f.Bint[10]) + 1)(q=f.terms.Slice("q", 1, 9, 2, 10))
                out.append(e2(q=idx))
            except Exception:  # noqa
                pass
        return out
    if name == "einsum":
        ea, eb = ctx.T(ctx.a_ij, "ab"), ctx.T(ctx.b_jk, "bc")
        return [f.einsum.einsum("ab,bc->ac", ea, eb), f.einsum.einsum("ab,bc->", ea, eb)]
    if name == "sum_product":
        la, lb = a.log(), b.log()
        return [
            f.sum_product.sum_product(ops.logaddexp, ops.add, [la, lb], frozenset(["i", "j", "k"]), frozenset()),
            f.sum_product.sum_product(ops.logaddexp, ops.add, [la, lb, c.log()], frozenset(["j", "k"]), frozenset(["i"])),
        ]
    if name == "sequential_sum_product":
        trans = f.Tensor(ctx.trans, OD(time=f.Bint[4], prev=f.Bint[2], curr=f.Bint[2]))
        return [
            f.sum_product.sequential_sum_product(ops.logaddexp, ops.add, trans, f.Variable("time", f.Bint[4]), {"prev": "curr"}),
            f.sum_product.naive_sequential_sum_product(ops.logaddexp, ops.add, trans, f.Variable("time", f.Bint[4]), {"prev": "curr"}),
        ]
    if name == "gaussian_ops":
        g = ctx.gaussian()
        return [
            g + g,
            g(x=f.Tensor(np.array(0.5))),
            g(y=f.Tensor(np.array([0.1, 0.2]))),
            g(x=f.Variable("z", f.Real) * 2.0 + 1.0),
            g.reduce(ops.logaddexp, "x"),
            g.reduce(ops.logaddexp, frozenset(["x", "y"])),
            g.reduce(ops.add, "i"),
            (g + c).reduce(ops.logaddexp, "i"),
        ]
    if name == "gaussian_sample":
        g = ctx.gaussian()
        return [g.sample(frozenset(["x"])), g.sample(frozenset(["x", "y"]), OD(p=f.Bint[2]))]
    if name == "moment_matching":
        g = ctx.gaussian() + c.log()
        with f.interpretations.moment_matching:
            return [g.reduce(ops.logaddexp, "i")]
    if name == "integrate":
        g = ctx.gaussian()
        xv = f.Variable("x", f.Real)
        return [
            f.Integrate(g, xv * xv + 1.0, frozenset(["x", "y"])),
            f.Integrate(a.log() - a.log().reduce(ops.logaddexp, "j"), b, frozenset(["j"])),
        ]
    if name == "scatter":
        idx = f.Tensor(ctx.idx_i, OD(i=f.Bint[2]), 3)
        src = c
        return [f.terms.Scatter(ops.add, (("j", idx),), src, frozenset([f.Variable("i", f.Bint[2])]))]
    if name == "independent":
        d = f.Tensor(ctx.e_ij2, OD(i=f.Bint[2], j=f.Bint[3]))  # output Reals[2]
        x = f.Variable("x_i", f.Real)
        g = ctx.gaussian()
        return [f.Independent(g(y=f.Tensor(np.array([0.1, 0.2])))(x="x_i"), "x", "i", "x_i")]
    if name == "compile":
        with f.interpretations.lazy:
            x = (f.Variable("x", f.Reals[3]) * f.Tensor(ctx.c_i[:1] * np.ones(3))).sum()
        prog = f.compiler.compile_funsor(x)
        return [x]
    if name == "unary_inplace_candidates":
        out = []
        for fn in ("exp", "log", "sqrt", "abs", "sigmoid", "neg", "reciprocal", "log1p"):
            out.append(getattr(ops, fn)(a))
        out.append(e.sum(-1))
        out.append(e.prod(-1))
        out.append(e.logsumexp(-1))
        out.append(ops.logaddexp(a, c))
        out.append(ops.safesub(a, c))
        out.append(ops.safediv(a, c))
        out.append(ops.clamp(a, 0.5, 1.5))
        return out
    if name == "gaussian_constructors":
        from funsor.gaussian import Gaussian

        inputs = OD(i=f.Bint[2], x=f.Real, y=f.Reals[2])
        out = []
        for kw in (
            dict(mean=ctx.mean_m, precision=ctx.prec_m),
            dict(mean=ctx.mean_m, covariance=ctx.cov_m),
            dict(mean=ctx.mean_m, precision=ctx.prec_inv2),
            dict(info_vec=ctx.mean_m, precision=ctx.prec_m),
            dict(info_vec=ctx.mean_m, covariance=ctx.cov_m),
            dict(white_vec=ctx.mean_m, prec_sqrt=ctx.prec_sqrt),
            dict(mean=ctx.mean_m, scale_tril=ctx.prec_sqrt),
        ):
            try:
                gg = Gaussian(inputs=inputs, **kw)
                out.append(gg)
                out.append(gg.reduce(ops.logaddexp, "x"))
                gg._precision, gg._covariance, gg._mean  # cached views of the parameters
            except Exception:  # noqa
                pass
        return out
    if name == "linear_algebra_on_edge_matrices":
        out = []
        with np.errstate(all="ignore"):
            for arr in (ctx.sing_m, ctx.zero_m, ctx.indef_m, ctx.ones_m, ctx.prec_m, ctx.cov_m):
                t = f.Tensor(arr)
                for fn in ("cholesky", "cholesky_inverse", "logdet" if hasattr(ops, "logdet") else "cholesky", "transpose" if False else "cholesky"):
                    for operand in (arr, t):
                        try:
                            r0 = getattr(ops, fn)(operand)
                            if isinstance(r0, f.terms.Funsor):
                                out.append(r0)
                        except Exception:  # noqa
                            pass
            # a Gaussian built from a precision whose factorisation fails
            try:
                from funsor.gaussian import Gaussian

                out.append(Gaussian(mean=ctx.mean_m, precision=ctx.ones_m, inputs=OD(i=f.Bint[2], x=f.Real, y=f.Reals[2])))
            except Exception:  # noqa
                pass
        return out
    if name == "ops_sweep":
        # every op of funsor.ops, by introspection, applied to caller-held arrays (raw and wrapped in
        # Tensors) in the argument shapes its arity allows; whatever raises is skipped: only writes matter
        from funsor.ops.op import Op

        raws = [ctx.a_ij, ctx.z_ij, ctx.zneg_ij, ctx.prec_m, ctx.sing_m, ctx.c_i, ctx.idx_i, ctx.e_ij2, ctx.l_ij]
        extra = [(), (0,), (-1,), (0, True), ((3, 2),), ((1, 0),), (0.5,), (0.25, 1.5), (1,), (slice(0, 1),), ("ab->ba",)]
        out = []
        seen = set()
        with np.errstate(all="ignore"):
            for opname in sorted(dir(ops)):
                op = getattr(ops, opname)
                if not isinstance(op, Op) or type(op) in seen or opname in ("randn", "sample"):
                    continue
                seen.add(type(op))
                arity = type(op).arity
                picks = [ctx.r.choice(raws) for _ in range(3)] + [ctx.a_ij, ctx.prec_m]
                for x in picks:
                    others = [ctx.r.choice(raws) for _ in range(max(0, arity - 1))]
                    for ex in [()] + [ctx.r.choice(extra) for _ in range(2)]:
                        for wrap in (False, True):
                            try:
                                if arity == 1 and opname in ("cat", "stack", "einsum"):
                                    args = ((f.Tensor(x), f.Tensor(x)) if wrap else (x, x),)
                                else:
                                    args = tuple(f.Tensor(v) if wrap else v for v in [x] + others)
                                r0 = op(*args, *ex)
                                if isinstance(r0, f.terms.Funsor):
                                    out.append(r0)
                            except Exception:  # noqa
                                pass
        return out[:40]
    if name == "kernels_on_edge_values":
        z, zn = ctx.T(ctx.z_ij, "ij"), ctx.T(ctx.zneg_ij, "ij")
        out = []
        with np.errstate(all="ignore"):
            for t in (z, zn):
                for fn in ("exp", "log", "sqrt", "abs", "sigmoid", "neg", "reciprocal", "log1p", "tanh", "sign" if hasattr(ops, "sign") else "abs"):
                    try:
                        out.append(getattr(ops, fn)(t))
                    except Exception:  # noqa
                        pass
                for fn in ("logaddexp", "safesub", "safediv", "add", "mul", "truediv", "max", "min", "sub"):
                    for lhs, rhs in ((a, t), (t, a), (t, t)):
                        try:
                            out.append(getattr(ops, fn)(lhs, rhs))
                        except Exception:  # noqa
                            pass
                try:
                    out.append(ops.clamp(t, -1.0, 1.0))
                    out.append(t.clamp_finite())
                    out.append(t.reduce(ops.logaddexp, "j"))
                    out.append(t.reduce(ops.mul, "i"))
                except Exception:  # noqa
                    pass
                # the same operations arrived at through rewriting (normalize turns a / t into a * reciprocal(t), a - t into a + (-t))
                try:
                    with f.interpretations.normalize:
                        q = [a / t, a - t, (a * t).reduce(ops.add, "j") / c]
                    out.extend(f.reinterpret(x) for x in q)
                except Exception:  # noqa
                    pass
        return out
    if name == "logspace_contraction":
        la, lb = ctx.T(ctx.l_ij, "ij"), ctx.T(ctx.l_jk, "jk")
        from funsor.cnf import Contraction

        out = [
            Contraction(ops.logaddexp, ops.add, frozenset([f.Variable("j", f.Bint[3])]), la, lb),
            Contraction(ops.logaddexp, ops.add, frozenset([f.Variable("k", f.Bint[2])]), la, lb),
            (la + lb).reduce(ops.logaddexp, "j"),
            (la + lb).reduce(ops.logaddexp, frozenset(["i", "j", "k"])),
            f.sum_product.sum_product(ops.logaddexp, ops.add, [la, lb], frozenset(["j"]), frozenset()),
            la.reduce(ops.logaddexp, "j"),
            la.exp(),
        ]
        with f.interpretations.lazy:
            x = (la + lb).reduce(ops.logaddexp, "j")
        out.append(f.optimizer.apply_optimizer(x))
        return out
    if name == "affine":
        from funsor.affine import affine_inputs, extract_affine, is_affine

        xv = f.Variable("x", f.Reals[2])
        yv = f.Variable("y", f.Reals[2])
        expr = e[0] * xv + yv * 2.0 - e[1]  # e is [i,j]-batched with event shape (2,)
        const, coeffs = extract_affine(expr)
        return [expr, const] + [c for c, _ in coeffs.values()] + ([f.Number(1.0)] if is_affine(expr) and affine_inputs(expr) else [])
    if name == "recipes_ffbs":
        from funsor.recipes import forward_filter_backward_rsample

        g = ctx.gaussian()  # inputs i, x, y
        factors = {"x": g, "w": c.log()}
        samples, log_prob = forward_filter_backward_rsample(factors, frozenset(["x", "y", "i"]), frozenset(["i"]), OD(p=f.Bint[2]))
        return list(samples.values()) + [log_prob]
    if name == "partial_sum_product":
        la, lb, lc = ctx.T(ctx.l_ij, "ij"), ctx.T(ctx.l_jk, "jk"), c.log()
        factors = [la, lb, lc]
        eliminate = frozenset(["j", "k"])
        plates = frozenset(["i"])
        out = f.sum_product.partial_sum_product(ops.logaddexp, ops.add, factors, eliminate, plates)
        out2 = f.sum_product.sum_product(ops.logaddexp, ops.add, factors, frozenset(["i", "j", "k"]), plates)
        # the caller's containers must be untouched as well
        if len(factors) != 3 or eliminate != frozenset(["j", "k"]) or plates != frozenset(["i"]):
            raise Violation("argument-container-mutated", "sum_product modified the factor list / eliminate / plates it was given")
        return list(out) + [out2]
    if name == "joint_mixture":
        g = ctx.gaussian()
        w = c.log()
        d = f.delta.Delta("y", f.Tensor(np.array([0.3, -0.2])))
        mix = g + w
        return [
            mix,
            mix + d,
            (mix + d).reduce(ops.logaddexp, "y"),
            (g + d)(x=f.Tensor(np.array(0.25))),
            mix.reduce(ops.logaddexp, frozenset(["x", "y"])),
            (mix.reduce(ops.logaddexp, frozenset(["x", "y"]))).reduce(ops.logaddexp, "i"),
        ]
    if name == "approximate":
        la = ctx.T(ctx.l_ij, "ij")
        guide = la + c.log()
        out = []
        for interp in (f.interpretations.eager, f.interpretations.lazy):
            with interp:
                out.append(la.approximate(ops.logaddexp, guide, "j"))
        with f.approximations.argmax_approximate:
            out.append(la.approximate(ops.logaddexp, guide, "j"))
        with f.montecarlo.MonteCarlo():
            out.append(la.approximate(ops.logaddexp, guide, "j"))
        return out
    if name == "binary_views":
        v = a(j=f.terms.Slice("j", 0, 2, 1, 3))  # a view of the user's array
        w = v(i=0)
        out = [v + w, v * 2.0, ops.max(v, w), v - v, w.exp()]
        out.append(f.terms.Stack("s", (w, w)).reduce(ops.add, "s"))
        out.append(f.terms.Cat("j", (v, v)).reduce(ops.logaddexp, "j"))
        return out
    raise KeyError(name)


def _run_session(args):
    import gc

    import numpy as np

    import funsor

    from sim import execs, oracle, program, seams

    item, cfg = args
    r = W.rng(cfg["seed"])
    watch = Watch()
    tripwire = cfg["detector"] == "tripwire"
    stats = {"steps": 0, "api_steps": 0, "step_errors": 0, "faults": {}, "verifies": 0, "objects_watched": 0, "tripwire_arrays": 0, "api_reached": {}}
    inj = seams.CallInjector()
    inj.install()
    env = {}
    arrays = {}
    violation = None
    prog = item["program"]
    oracle.set_carrier(item.get("family"))
    steps = [("prog", n) for n in range(len(prog))]
    napi = cfg.get("napi", 4)
    api = [("api", r.choice(API_STEPS)) for _ in range(napi)]
    # API steps are interleaved after the first half of the program
    cut = len(steps) // 2
    steps = steps[:cut] + api[: napi // 2] + steps[cut:] + api[napi // 2 :]
    ctx = None
    failed = set()

    def count(k):
        stats["faults"][k] = stats["faults"].get(k, 0) + 1

    try:
        ctx = ApiCtx(r, watch, tripwire)
        stats["tripwire_arrays"] = len(watch.arrays) if tripwire else 0
        for kind, what in steps:
            stats["steps"] += 1
            # faults for this step
            fault = r.choice(["none", "none", "exc", "gc", "decline", "disable"])
            ctl = None
            if fault == "decline":
                ctl = execs.FaultController(decline_k=r.randint(1, 12))
            elif fault == "disable":
                ctl = _DisableAny(r.random())
            interp = r.choice(["eager", "eager", "lazy", "normalize", "sequential", "reflect", "moment_matching"])
            if fault == "exc":
                inj.arm(r.randint(1, 300), r.choice(["MemoryError", "RecursionError", "FloatingPointError"]))
            if fault == "gc":
                gc.collect()
                count("GC")
            produced = []
            try:
                with seams.controller(ctl) if ctl is not None else _Null():
                    with inj.window():
                        with _interp(interp):
                            if kind == "prog":
                                op = prog[what]
                                if any(u in failed for u in program.uses(op)):
                                    failed.add(op["out"])
                                    continue
                                val = program.build(op, env, arrays)
                                env[op["out"]] = val
                                produced.append((op["out"], val))
                            else:
                                stats["api_steps"] += 1
                                vals = api_step(what, ctx, list(env.values()))
                                stats["api_reached"][what] = stats["api_reached"].get(what, 0) + 1
                                for i, v in enumerate(vals):
                                    produced.append(("%s#%d" % (what, i), v))
                                    env["api%d_%s_%d" % (stats["steps"], what, i)] = v
            except ValueError as e:
                if "read-only" in str(e):
                    import traceback

                    tb = traceback.extract_tb(e.__traceback__)
                    frames = [f for f in tb if "/funsor/" in f.filename]
                    where = "%s:%d in %s" % (frames[-1].filename.split("/funsor/")[-1], frames[-1].lineno, frames[-1].name) if frames else "?"
                    raise Violation(
                        "write-through-operand",
                        "step %s %s under %s wrote into a read-only user array (or a view of it) at funsor/%s: %s" % (kind, what if kind == "api" else prog[what]["op"], interp, where, e),
                    )
                stats["step_errors"] += 1
                if kind == "prog":
                    failed.add(prog[what]["out"])
            except Violation:
                raise
            except Exception as e:  # noqa
                stats["step_errors"] += 1
                if kind == "prog":
                    failed.add(prog[what]["out"])
            finally:
                if fault == "exc":
                    if inj.fired is not None:
                        count("EXC_CALL")
                    inj.disarm()
                if ctl is not None:
                    if getattr(ctl, "declined", 0):
                        count("DECLINE")
                    if getattr(ctl, "disabled", 0):
                        count("DISABLE_IF")
            # new leaf arrays become watched (and read-only under the tripwire)
            for label, arr in arrays.items():
                if id(arr) not in watch.arrays:
                    watch.add_array("leaf " + label, arr)
                    if tripwire:
                        arr.flags.writeable = False
                        stats["tripwire_arrays"] += 1
            watch.verify("after step %d (%s %s under %s, fault %s)" % (stats["steps"], kind, what if kind == "api" else prog[what]["op"], interp, fault))
            for label, v in produced:
                watch.add_term(label, v)
        gc.collect()
        watch.verify("at the end of the run")
    except Violation as v:
        violation = {"invariant": v.invariant, "message": v.message}
    stats["verifies"] = watch.checks
    stats["objects_watched"] = watch.objects + len(watch.arrays)
    return {"violation": violation, "stats": stats}


class _Null:
    def __enter__(self):
        return self

    def __exit__(self, *a):
        return False


def _DisableAny(p):
    """Controller that keeps a pseudo-randomly chosen subset of rules from firing
    on operands that still have free inputs (drives rarely used generic paths)."""
    from sim import execs, seams

    class C(seams.Controller):
        def __init__(self):
            super().__init__()
            self.disabled = 0

        def pre_decline(self, iname, rname, cls, args):
            h = (sum(map(ord, rname)) % 100) / 100.0
            if abs(h - p) < 0.15 and any(execs.has_inputs(a) for a in args):
                self.disabled += 1
                return True
            return False

    return C()


def run_sessions(payload):
    from sim.iso import fork_call

    r = W.rng(payload["seed"])
    tot = {"runs": 0, "steps": 0, "api_steps": 0, "step_errors": 0, "verifies": 0, "objects_watched": 0, "tripwire_arrays": 0, "fork_errors": 0, "nontrivial": 0}
    faults = {}
    reached = {}
    violations = []
    sample = None
    errs = []
    for n, item in enumerate(payload["programs"]):
        cfg = payload.get("cfg") or {"detector": payload["detector"], "seed": "%s/%d" % (payload["seed"], n), "napi": 4}
        res = fork_call(_run_session, ((item, cfg),), timeout=120)
        tot["runs"] += 1
        if res.get("status") != "ok":
            tot["fork_errors"] += 1
            errs.append((res.get("err") or str(res))[-1200:])
            continue
        rr = res["res"]
        st = rr["stats"]
        for k in ("steps", "api_steps", "step_errors", "verifies", "objects_watched", "tripwire_arrays"):
            tot[k] += st[k]
        for k, v in st["faults"].items():
            faults[k] = faults.get(k, 0) + v
        for k, v in st["api_reached"].items():
            reached[k] = reached.get(k, 0) + v
        if st["faults"]:
            tot["nontrivial"] += 1
        if rr["violation"]:
            v = rr["violation"]
            v["item"] = item
            v["cfg"] = cfg
            v["fingerprint"] = v["invariant"]
            violations.append(v)
            break
        if sample is None:
            sample = {"detector": cfg["detector"], "program": c02._brief(item["program"])[:6], "steps": st["steps"], "faults": st["faults"]}
    if errs and tot["fork_errors"] > 0.5 * max(1, tot["runs"]):
        raise RuntimeError("most sessions failed: " + errs[0])
    return {"violations": violations[:1], "stats": dict(tot, faults=faults, api_reached=reached, detector=payload["detector"]), "sample": sample, "errors": errs[:2]}


###############################################################################
# runner side


def summarize(jobs, results, tier):
    tot = {}
    faults = {}
    reached = {}
    by_det = {}
    samples = []
    errors = []
    for job, res in zip(jobs, results):
        if job["fn"] != "run_sessions" or not res or res.get("status") != "ok":
            continue
        st = res["res"]["stats"]
        for k, v in st.items():
            if k == "faults":
                for a, b in v.items():
                    faults[a] = faults.get(a, 0) + b
            elif k == "api_reached":
                for a, b in v.items():
                    reached[a] = reached.get(a, 0) + b
            elif isinstance(v, int):
                tot[k] = tot.get(k, 0) + v
        by_det[st["detector"]] = by_det.get(st["detector"], 0) + st["runs"]
        if res["res"].get("sample") and len(samples) < 3:
            samples.append(res["res"]["sample"])
        errors.extend(res["res"].get("errors", []))
    return {
        "evaluations": tot.get("runs", 0),
        "distinct_nontrivial": tot.get("nontrivial", 0),
        "rule": "one evaluation = one session in a fresh fork: a generated program (3-10 constructor calls, four semiring families) "
        "interleaved with 4 entries of a 25-entry catalogue of public API calls (optimizer, adjoint, samplers, Gaussian algebra, "
        "sum_product family, conversions, Scatter/Stack/Cat/Lambda/Independent, compile, views and slices), each step under a "
        "randomly chosen interpretation and fault (exception at the n-th internal call, collection, one declined rule firing, a "
        "subset of rules disabled on non-ground operands). Non-trivial = at least one fault fired in the session; sessions are "
        "distinct by construction (program, seed).",
        "samples": samples or [{"note": "none"}],
        "exhaustive": False,
        "sessions_by_detector": by_det,
        "steps": tot.get("steps", 0),
        "api_steps": tot.get("api_steps", 0),
        "steps_raising": tot.get("step_errors", 0),
        "snapshot_verifications": tot.get("verifies", 0),
        "objects_watched": tot.get("objects_watched", 0),
        "read_only_arrays": tot.get("tripwire_arrays", 0),
        "faults_fired_by_kind": faults,
        "api_entries_reached": reached,
        "api_entries_never_reached": sorted(set(API_STEPS) - set(reached)),
        "session_fork_errors": tot.get("fork_errors", 0),
        "error_samples": errors[:2],
        "components": {
            "real": ["funsor (working tree)", "numpy (read-only flag semantics)"],
            "stubbed": ["object hashes (seeded hook)", "automatic GC (disabled; collections are scheduled events)"],
        },
    }


def minimize(job, violation, test):
    item = violation.get("item")
    if not item:
        return job, violation
    inv = violation["invariant"]
    j = dict(job, payload=dict(job["payload"], programs=[item], cfg=violation["cfg"]))
    for v in test(j):
        if v.get("invariant") == inv:
            return j, v
    return job, violation
