#!/venv/bin/python
"""Print a replay file's program in readable form."""
import json, sys
rp = json.load(open(sys.argv[1]))
print("property", rp["property"], "world", rp["world"])
print("violation:", rp["violation"].get("invariant"), "-", rp["violation"].get("message"))
pl = rp["payload"]
print("mode", pl.get("mode"), "only", pl.get("only"), "variant", rp["violation"].get("variant"))
for op in pl.get("program", []):
    d = dict(op)
    print("  ", d.pop("out"), "=", d.pop("op"), json.dumps(d))
