#!/bin/sh
# Runs the repository's pinned suite with the verification guard OFF and prints the pass count
# (BASELINE.json: 7668 stable passes; 20 always-failing items need pyro/jax which are not installed).
cd /repo && env -u FUNSOR_VERIF -u FUNSOR_VERIF_HASHSEED /venv/bin/python -m pytest -ra -q -p no:cacheprovider --timeout=900 --continue-on-collection-errors "$@" 2>&1 | tail -3
