#!/bin/sh
# usage: soak.sh <ID> <first-seed> <last-seed> [tier]   -- runs a check over a seed range, prints only violations/summary
id=$1; a=$2; b=$3; tier=${4:-quick}
for s in $(seq $a $b); do
  ./check $id --tier $tier --seed $s 2>&1 | grep -E "VIOLATION|invariant:|HARNESS|KNOWN|^done|disagree|firing" | cut -c1-700
done
