#!/bin/sh
# usage: thorough_some.sh <seed> <ID>... : the thorough tier of the given checks, one after the other
s=$1; shift
for c in "$@"; do ./check $c --tier thorough --seed $s 2>&1 | grep -E "VIOLATION|invariant:|^done|HARNESS|KNOWN" | cut -c1-400; done
