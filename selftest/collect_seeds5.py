#!/usr/bin/env python3
"""Fifth wave: copies confirmed sub-agent changes from /tmp/agent5-<PROP>-out/<n> into /verif/seeded/<PROP>-<n+8>/."""
import json, os, shutil
caught = {
 ("C02",1): "C02 decline-changes-value after the corpus enumerates Independent over Deltas of every density kind and evaluates it on the support; missed before (the first attempt instead exposed F26 on the unchanged tree)",
 ("C02",2): "C02 disable-changes-value after joint Deltas integrated / marginalised over one of their names entered the Gaussian workload; missed before",
 ("C03",1): "C03 deferred-differs-from-immediate after discrete Integrate (variables occurring in the integrand only) entered the core workload; missed before",
 ("C03",2): "C03 deferred-differs-from-immediate after semiring products may repeat a factor; missed before",
 ("C07",1): "C07 I1-duplicate-live-term / I5-pickle-roundtrip after numpy-scalar Numbers entered the recipes; missed before",
 ("C07",2): "C07 I3-stale-object after wrapped-callable ops differing in validate_args entered the recipes; missed before",
 ("C14",1): "C14 delta-integrate after joint Deltas integrated over one name; missed before",
 ("C14",2): "C14 sample-support after tensor rows on very different log scales; missed before",
 ("C16",1): "C16 not-instance-of-generalisation",
 ("C16",2): "C16 selected-rule-does-not-match / winner-not-most-specific / subtype-not-transitive",
 ("C17",1): "C17 stack-depth / exit-restores",
 ("C20",1): "C20 write-through-operand after factorisations of singular / indefinite caller-held matrices; missed before",
 ("C20",2): "C20 array-mutated after Gaussian keyword constructors from caller-held, numerically inverted matrices; missed before",
}
for (prop, n), how in caught.items():
    src = "/tmp/agent5-%s-out/%d" % (prop, n)
    tests = "/tmp/seedtests5-%s-%d.log" % (prop, n)
    line = open(tests).read().strip().splitlines()[-1] if os.path.exists(tests) and open(tests).read().strip() else None
    if not line or not line.startswith("7666 passed"):
        print("SKIP (suite not confirmed):", prop, n, line)
        continue
    sid = "%s-%d" % (prop, n + 8)
    dst = "/verif/seeded/%s" % sid
    os.makedirs(dst, exist_ok=True)
    shutil.copy(os.path.join(src, "patch.diff"), dst)
    shutil.copy(os.path.join(src, "demo.py"), dst)
    meta = json.load(open(os.path.join(src, "meta.json")))
    meta.update({"id": sid, "breaks_property": prop,
                 "written_by": "independent sub-agent (fifth wave) given only the property text, a scratch worktree and the list of sites already used",
                 "detected_by": how,
                 "confirmed_by_us": {"demo_on_clean_tree": "exit 0", "demo_with_change": "exit 1 (assertion failure)",
                                      "our_check": "VERIF_REPO=<scratch worktree with the change> ./check %s --tier quick -> VIOLATION" % prop,
                                      "pinned_suite_with_change": line}})
    json.dump(meta, open(os.path.join(dst, "meta.json"), "w"), indent=1)
    print("collected", sid)
