#!/usr/bin/env python3
"""Fourth wave: copies confirmed sub-agent changes from /tmp/agent4-<PROP>-out/<n> into /verif/seeded/<PROP>-<n+6>/."""
import json, os, shutil
caught = {
 ("C02",1): "C02 decline-changes-value / marginal reference after Integrate steps that sum batch inputs together with the real variable (workload, corpus family 8, reference extended to integer variables); missed before",
 ("C02",2): "C02 value-differs-from-reference-model (dense numpy reference model of the tensor fragment)",
 ("C03",1): "C03 deferred-differs-from-immediate",
 ("C03",2): "C03 deferred-differs-from-immediate",
 ("C07",1): "C07 I5-pickle-roundtrip after shaped integer domains (Bint[2,3], Array[2,(3,)]) and variables over them entered the recipes; missed before",
 ("C07",2): "C07 I3-stale-object after keyword-parametrised ops (NewFullOp(value=..), DiagonalOp(dim2=..), TransposeOp(axis2=..)) entered the recipes; missed before",
 ("C14",1): "C14 sample-mass-via-reduce after over-complete factors whose white vector is not in the factor's row space; missed before",
 ("C14",2): "C14 sample-mass after rank-deficient factors and the closed-form reference for the marginal mass; missed before (funsor's own marginal shares the helper)",
 ("C16",1): "C16 subtype-disagrees-with-reference-model / subtype-not-transitive after a user generic class with several arities entered the pattern pool; missed before",
 ("C16",2): "C16 matching-rule-not-selected after variadic list patterns with several alternatives entered the user registry; missed before",
 ("C17",1): "C17 layering after the block kind 'Memoize constructed directly over a partial interpretation'; missed before",
 ("C17",2): "C17 partial-skipped after the name-independence work step (two user interpretations with identical rules, one with the default name, inside apply_optimizer/einsum); missed before",
 ("C20",1): "C20 write-through-operand after the API step that runs the array kernels on zeros of both signs and infinities, directly and through normalize; missed before",
 ("C20",2): "C20 term-mutated",
}
for (prop, n), how in caught.items():
    src = "/tmp/agent4-%s-out/%d" % (prop, n)
    tests = "/tmp/seedtests4-%s-%d.log" % (prop, n)
    line = open(tests).read().strip().splitlines()[-1] if os.path.exists(tests) and open(tests).read().strip() else None
    if not line or not line.startswith("7666 passed"):
        print("SKIP (suite not confirmed):", prop, n, line)
        continue
    sid = "%s-%d" % (prop, n + 6)
    dst = "/verif/seeded/%s" % sid
    os.makedirs(dst, exist_ok=True)
    shutil.copy(os.path.join(src, "patch.diff"), dst)
    shutil.copy(os.path.join(src, "demo.py"), dst)
    meta = json.load(open(os.path.join(src, "meta.json")))
    meta.update({"id": sid, "breaks_property": prop,
                 "written_by": "independent sub-agent (fourth wave) given only the property text, a scratch worktree and the list of sites already used",
                 "detected_by": how,
                 "confirmed_by_us": {"demo_on_clean_tree": "exit 0", "demo_with_change": "exit 1 (assertion failure)",
                                      "our_check": "VERIF_REPO=<scratch worktree with the change> ./check %s --tier quick -> VIOLATION" % prop,
                                      "pinned_suite_with_change": line}})
    json.dump(meta, open(os.path.join(dst, "meta.json"), "w"), indent=1)
    print("collected", sid)
