#!/usr/bin/env python3
"""Second wave: copies confirmed sub-agent changes from /tmp/agent2-<PROP>-out/<n> into /verif/seeded/<PROP>-<n+2>/."""
import json, os, shutil
caught = {
 ("C02",1): "C02 disable-changes-value (Gaussian workload)",
 ("C02",2): "C02 decline-changes-value after strided slices, slice-of-slice patterns and the scenario corpus were added; missed before",
 ("C03",1): "C03 deferred-differs-from-immediate after truediv/reciprocal entered the positive-data family and the corpus; missed before",
 ("C03",2): "C03 memo-cache-not-filled / memo-not-identical after the history-level oracle for caller-owned dicts shared across blocks; missed before",
 ("C07",1): "C07 I4-table-not-weak",
 ("C07",2): "C07 I4-table-not-weak",
 ("C14",1): "C14 sample-mass / sample-support",
 ("C14",2): "C14 delta-off-point after vector-/matrix-valued Delta points evaluated at values differing in one coordinate; missed before",
 ("C16",1): "C16 subtype-disagrees-with-membership after the executable reference model of membership; missed before",
 ("C16",2): "C16 stale-precise-type after re-deriving each visited term's precise type from its arguments (also after lazy/normalize reinterpretation); missed before",
 ("C17",1): "C17 layering",
 ("C17",2): "C17 exit-restores",
 ("C20",1): "C20 term-mutated",
 ("C20",2): "C20 write-through-operand",
}
for (prop, n), how in caught.items():
    src = "/tmp/agent2-%s-out/%d" % (prop, n)
    tests = "/tmp/seedtests2-%s-%d.log" % (prop, n)
    line = open(tests).read().strip().splitlines()[-1] if os.path.exists(tests) and open(tests).read().strip() else None
    if not line or not line.startswith("7666 passed"):
        print("SKIP (suite not confirmed):", prop, n, line)
        continue
    sid = "%s-%d" % (prop, n + 2)
    dst = "/verif/seeded/%s" % sid
    os.makedirs(dst, exist_ok=True)
    shutil.copy(os.path.join(src, "patch.diff"), dst)
    shutil.copy(os.path.join(src, "demo.py"), dst)
    meta = json.load(open(os.path.join(src, "meta.json")))
    meta.update({"id": sid, "breaks_property": prop,
                 "written_by": "independent sub-agent (second wave) given only the property text, a scratch worktree and the list of sites already used",
                 "detected_by": how,
                 "confirmed_by_us": {"demo_on_clean_tree": "exit 0", "demo_with_change": "exit 1 (assertion failure)",
                                      "our_check": "VERIF_REPO=<scratch worktree with the change> ./check %s --tier quick -> VIOLATION" % prop,
                                      "pinned_suite_with_change": line}})
    json.dump(meta, open(os.path.join(dst, "meta.json"), "w"), indent=1)
    print("collected", sid)
