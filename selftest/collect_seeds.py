#!/usr/bin/env python3
"""Copies confirmed sub-agent changes into /verif/seeded/<id>/ and records what we ran."""
import json, os, shutil, subprocess, sys
caught = {
 "C02-1": "C02 (decline-/disable-changes-value) once the semiring workload (nested sums of >=3 factors) was added; missed before",
 "C02-2": "C02 decline-changes-value / disable-changes-value",
 "C03-1": "C03 deferred-differs-from-immediate (program with a sub-term used twice in one Stack/Contraction)",
 "C03-2": "C03 deferred-differs-from-immediate (force = normalize)",
 "C07-1": "C07 I4-table-not-weak (quiescent baseline: Variable/domain tables larger after dropping everything)",
 "C07-2": "C07 I3-stale-object once GetsliceOp recipes differing only in step and parameter verification were added; missed before",
 "C14-1": "C14 sample-support (three jointly sampled variables)",
 "C16-1": "C16 dispatch-depends-on-history once the user-defined registry with FrozenSet/Tuple patterns was added; missed before",
 "C16-2": "C16 subtype-not-transitive",
 "C17-2": "C17 layering once one AdjointTape object is reused for several blocks (tape_shared); missed before",
 "C20-1": "C20 write-through-operand / array-mutated once the log-space contraction step over user arrays with -inf was added; missed before",
 "C20-2": "C20 term-mutated once array attributes of held terms (identity + bytes) were part of the snapshot and terms were held from session start; missed before",
}
for sid, how in caught.items():
    prop, n = sid.split("-")
    src = "/tmp/agent-%s-out/%s" % (prop, n)
    dst = "/verif/seeded/%s" % sid
    os.makedirs(dst, exist_ok=True)
    shutil.copy(os.path.join(src, "patch.diff"), dst)
    shutil.copy(os.path.join(src, "demo.py"), dst)
    meta = json.load(open(os.path.join(src, "meta.json")))
    meta["id"] = sid
    meta["breaks_property"] = prop
    meta["written_by"] = "independent sub-agent given only the property text and a scratch worktree"
    meta["detected_by"] = how
    meta["confirmed_by_us"] = {
        "demo_on_clean_tree": "exit 0",
        "demo_with_change": "exit 1 (assertion failure)",
        "our_check": "VERIF_REPO=<scratch worktree with the change> ./check %s --tier quick -> VIOLATION" % prop,
    }
    tests = "/tmp/seedtests-%s.log" % sid
    if os.path.exists(tests):
        meta["confirmed_by_us"]["pinned_suite_with_change"] = open(tests).read().strip().splitlines()[-1]
    json.dump(meta, open(os.path.join(dst, "meta.json"), "w"), indent=1)
    print("collected", sid)
