#!/bin/sh
# usage: mutant.sh <name> <sed-or-python-patch-file> <check ID> [extra args]
# Applies a patch to a scratch worktree of /repo, runs the check against it (VERIF_REPO), removes the worktree.
name=$1; patch=$2; id=$3; shift 3
wt=/tmp/verif-mut-$name
git -C /repo worktree remove --force $wt >/dev/null 2>&1
git -C /repo worktree add -q --detach $wt HEAD || exit 2
case $patch in /*) ;; *) patch=/verif/$patch;; esac
if ! git -C $wt apply $patch; then echo "PATCH-FAILED $name"; git -C /repo worktree remove --force $wt; exit 2; fi
cd /verif && VERIF_EVIDENCE_DIR=/tmp/verif-mut-evidence VERIF_REPLAY_DIR=/tmp/verif-mut-replays VERIF_REPO=$wt ./check $id "$@" 2>&1 | grep -E "VIOLATION|invariant:|^done|HARNESS|KNOWN" | cut -c1-300 | head -8
git -C /repo worktree remove --force $wt
