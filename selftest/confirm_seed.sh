#!/bin/sh
# usage: confirm_seed.sh <PROP> <n> [--tests]  : confirm a sub-agent's seeded change in a scratch worktree, then run our check against it.
prop=$1; n=$2; pre=${AGENT_PREFIX:-agent}; src=/tmp/$pre-$prop-out/$n; wt=/tmp/verif-seed-$prop-$n
git -C /repo worktree remove --force $wt >/dev/null 2>&1
git -C /repo worktree add -q --detach $wt HEAD || exit 2
echo "== $prop/$n demo on clean tree"; (cd /tmp && PYTHONPATH=$wt timeout 300 /venv/bin/python $src/demo.py >/tmp/seed-$prop-$n-clean.log 2>&1; echo "exit=$?")
if ! git -C $wt apply $src/patch.diff; then echo PATCH-FAILED; git -C /repo worktree remove --force $wt; exit 2; fi
echo "== demo with change"; (cd /tmp && PYTHONPATH=$wt timeout 300 /venv/bin/python $src/demo.py >/tmp/seed-$prop-$n-mut.log 2>&1; echo "exit=$?"; tail -2 /tmp/seed-$prop-$n-mut.log | cut -c1-300)
if [ "$3" = "--tests" ]; then
  echo "== pinned suite with change"; (cd $wt && env -u FUNSOR_VERIF /venv/bin/python -m pytest -q -p no:cacheprovider --timeout=900 --continue-on-collection-errors 2>&1 | tail -1)
fi
echo "== our check"; cd /verif && VERIF_EVIDENCE_DIR=/tmp/verif-mut-evidence VERIF_REPLAY_DIR=/tmp/verif-seed-replays VERIF_REPO=$wt ./check $prop --tier quick --budget ${SEED_BUDGET:-3000} 2>&1 | grep -E "VIOLATION|invariant:|^done|HARNESS" | cut -c1-400 | head -6
git -C /repo worktree remove --force $wt
