#!/bin/sh
# For every seeded change under /verif/seeded: apply it in a scratch worktree of /repo (outside /repo and /verif),
# run the property's quick check against that tree, and report whether a VIOLATION was raised.
# usage: selftest/seeded_regression.sh [ids...]     (default: all)
cd "$(dirname "$0")/.."
ids="$@"; [ -z "$ids" ] && ids=$(ls seeded)
pass=0; fail=0
for id in $ids; do
  prop=${id%%-*}; wt=/tmp/verif-seedreg-$id
  git -C /repo worktree remove --force $wt >/dev/null 2>&1
  git -C /repo worktree add -q --detach $wt HEAD || { echo "$id WORKTREE-FAILED"; continue; }
  if ! git -C $wt apply "$(pwd)/seeded/$id/patch.diff" 2>/dev/null; then echo "$id PATCH-DOES-NOT-APPLY"; git -C /repo worktree remove --force $wt; continue; fi
  out=$(VERIF_EVIDENCE_DIR=/tmp/verif-seedreg-evidence VERIF_REPLAY_DIR=/tmp/verif-seedreg-replays VERIF_REPO=$wt ./check $prop --tier quick --no-minimize --max-report 1 --budget 3000 2>&1)
  inv=$(echo "$out" | grep "invariant:" | head -1 | sed 's/ *invariant: //')
  if echo "$out" | grep -q "^VIOLATION property=$prop"; then echo "$id CAUGHT by $prop ($inv)"; pass=$((pass+1)); else echo "$id MISSED"; fail=$((fail+1)); fi
  git -C /repo worktree remove --force $wt
done
echo "seeded regression: $pass caught, $fail missed"
[ $fail -eq 0 ]
