#!/usr/bin/env python3
"""Seventh wave: copies confirmed sub-agent changes from /tmp/agent7-<PROP>-out/<n> into /verif/seeded/<PROP>-<n+12>/."""
import json, os, shutil
caught = {
 ("C02",1): "C02 disable-changes-value after corpus family 16; missed before",
 ("C02",2): "C02 decline-changes-value / value-differs-from-reference-model after corpus family 17; missed before",
 ("C03",1): "C03 deferred-differs-from-immediate after corpus family 15; missed before",
 ("C03",2): "C03 deferred-differs-from-immediate",
 ("C07",1): "C07 I2-construct-not-identical after Tensors requested through to_funsor(dim_to_name); missed before",
 ("C07",2): "C07 I3-stale-object after bounded-integer Tensors over float arrays; missed before",
 ("C14",1): "C14 delta-reduce after 'Delta followed by a dependent Delta'; missed before",
 ("C16",1): "C16 dispatch-leaks-between-registries (re-registration under a pattern written twice); missed before",
 ("C16",2): "C16 dispatch-leaks-between-registries",
 ("C17",1): "C17 fingerprint-identity",
 ("C17",2): "C17 stack-depth",
 ("C20",1): "C20 write-through-operand",
 ("C20",2): "C20 array-mutated after symbolic Cat/Stack/Slice indexed by caller-held index arrays; missed before",
}
for (prop, n), how in caught.items():
    src = "/tmp/agent7-%s-out/%d" % (prop, n)
    tests = "/tmp/seedtests7-%s-%d.log" % (prop, n)
    line = open(tests).read().strip().splitlines()[-1] if os.path.exists(tests) and open(tests).read().strip() else None
    if not line or not line.startswith("7666 passed"):
        print("SKIP (suite not confirmed):", prop, n, line)
        continue
    sid = "%s-%d" % (prop, n + 12)
    dst = "/verif/seeded/%s" % sid
    os.makedirs(dst, exist_ok=True)
    shutil.copy(os.path.join(src, "patch.diff"), dst)
    shutil.copy(os.path.join(src, "demo.py"), dst)
    meta = json.load(open(os.path.join(src, "meta.json")))
    meta.update({"id": sid, "breaks_property": prop,
                 "written_by": "independent sub-agent (seventh wave) given only the property text, a scratch worktree and the list of sites already used",
                 "detected_by": how,
                 "confirmed_by_us": {"demo_on_clean_tree": "exit 0", "demo_with_change": "exit 1 (assertion failure)",
                                      "our_check": "VERIF_REPO=<scratch worktree with the change> ./check %s --tier quick -> VIOLATION" % prop,
                                      "pinned_suite_with_change": line}})
    json.dump(meta, open(os.path.join(dst, "meta.json"), "w"), indent=1)
    print("collected", sid)
