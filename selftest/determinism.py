#!/venv/bin/python
"""Determinism self-test of the simulator (DESIGN.md section 9).

For each engine a sample of its quick-tier jobs is executed several times in
separate fresh runner processes that differ in everything the simulator claims
not to depend on: the runner's ambient PYTHONHASHSEED, the number of world
hosts running concurrently, and the order in which jobs are submitted.  The
JSON results of every job must be byte-identical across all executions.

usage: selftest/determinism.py [C02 C03 ...] [--jobs N] [--seeds a,b,c]
exit 0: identical;  exit 1: a divergence (a harness bug: blocks everything)."""

import argparse
import hashlib
import importlib
import json
import os
import subprocess
import sys

VERIF_DIR = os.path.dirname(os.path.dirname(os.path.abspath(__file__)))
sys.path.insert(0, VERIF_DIR)

ALL = ["C02", "C03", "C07", "C14", "C16", "C17", "C20"]


def emit(prop, seed, njobs, procs, reverse):
    from sim import world as W

    mod = importlib.import_module("checks." + prop.lower())
    engine = prop.lower()
    jobs = mod.plan(seed, "quick")
    for j in jobs:
        j["engine"] = engine
    r = W.rng(seed, "determinism", prop)
    if hasattr(mod, "post_plan"):
        gen = jobs[:2]
        res = W.run_jobs(gen, procs=procs)
        out = {"gen%d" % i: digest(x) for i, x in enumerate(res)}
        jobs = mod.post_plan(seed, "quick", gen, res)
        for j in jobs:
            j["engine"] = engine
    else:
        out = {}
    idx = sorted(r.sample(range(len(jobs)), min(njobs, len(jobs))))
    sample = [jobs[i] for i in idx]
    order = list(range(len(sample)))
    if reverse:
        order.reverse()
    results = W.run_jobs([sample[i] for i in order], procs=procs)
    for i, res in zip(order, results):
        out["job%d" % idx[i]] = digest(res)
    return out


def digest(res):
    return hashlib.sha1(json.dumps(res, sort_keys=True, default=repr).encode()).hexdigest()[:16]


def main():
    ap = argparse.ArgumentParser()
    ap.add_argument("props", nargs="*")
    ap.add_argument("--jobs", type=int, default=6)
    ap.add_argument("--seeds", default="0,7")
    ap.add_argument("--emit", nargs=5, metavar=("PROP", "SEED", "NJOBS", "PROCS", "REVERSE"))
    args = ap.parse_args()
    if args.emit:
        prop, seed, njobs, procs, reverse = args.emit
        print(json.dumps(emit(prop, int(seed), int(njobs), int(procs), reverse == "1"), sort_keys=True))
        return 0
    props = [p.upper() for p in args.props] or ALL
    bad = 0
    total = 0
    configs = [("0", 16, "0"), ("4242", 3, "1"), ("999983", 7, "0")]
    for prop in props:
        for seed in [int(s) for s in args.seeds.split(",")]:
            outs = []
            bad0 = bad
            for hashseed, procs, reverse in configs:
                env = dict(os.environ, PYTHONHASHSEED=hashseed)
                p = subprocess.run(
                    [sys.executable, os.path.abspath(__file__), "--emit", prop, str(seed), str(args.jobs), str(procs), reverse],
                    capture_output=True,
                    text=True,
                    env=env,
                    cwd=VERIF_DIR,
                )
                if p.returncode != 0:
                    print("HARNESS %s seed %s: emit failed: %s" % (prop, seed, p.stderr[-800:]))
                    bad += 1
                    continue
                outs.append(json.loads(p.stdout.strip().splitlines()[-1]))
            if len(outs) < 2:
                continue
            keys = sorted(outs[0])
            total += len(keys)
            for k in keys:
                vals = {o.get(k) for o in outs}
                if len(vals) != 1:
                    bad += 1
                    print("DIVERGENCE %s seed %d %s: %s" % (prop, seed, k, sorted(map(str, vals))))
            print("%s seed %d: %d job results compared across %d executions (ambient hash seeds %s, host counts %s): %s" % (
                prop, seed, len(keys), len(outs), [c[0] for c in configs], [c[1] for c in configs], "identical" if bad == bad0 else "DIVERGED"))
    print("determinism: %d results compared, %d divergences" % (total, bad))
    return 1 if bad else 0


if __name__ == "__main__":
    sys.exit(main())
