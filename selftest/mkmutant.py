#!/usr/bin/env python3
"""usage: mkmutant.py <name> <file> <<< JSON [[old, new], ...]   -- writes selftest/mutants/<name>.patch
Creates the patch by editing a scratch worktree of /repo (removed afterwards)."""
import json, subprocess, sys, os
name, relfile = sys.argv[1], sys.argv[2]
pairs = json.load(sys.stdin)
wt = "/tmp/verif-mk-" + name
subprocess.run(["git", "-C", "/repo", "worktree", "remove", "--force", wt], capture_output=True)
subprocess.check_call(["git", "-C", "/repo", "worktree", "add", "-q", "--detach", wt, "HEAD"])
try:
    p = os.path.join(wt, relfile)
    s = open(p).read()
    for old, new in pairs:
        assert s.count(old) == 1, (old, s.count(old))
        s = s.replace(old, new)
    open(p, "w").write(s)
    diff = subprocess.run(["git", "-C", wt, "diff"], capture_output=True, text=True).stdout
    out = os.path.join("/verif/selftest/mutants", name + ".patch")
    open(out, "w").write(diff)
    print("wrote", out, len(diff.splitlines()), "lines")
finally:
    subprocess.run(["git", "-C", "/repo", "worktree", "remove", "--force", wt], capture_output=True)
