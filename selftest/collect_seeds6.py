#!/usr/bin/env python3
"""Sixth wave: copies confirmed sub-agent changes from /tmp/agent6-<PROP>-out/<n> into /verif/seeded/<PROP>-<n+10>/."""
import json, os, shutil
caught = {
 ("C02",1): "C02 value-differs-from-reference-model / decline-changes-value",
 ("C02",2): "C02 marginal-differs-from-reference after Integrate over all real inputs of the measure and corpus family 14; missed before",
 ("C03",1): "C03 deferred-differs-from-immediate after the same-name form of Independent entered the corpus; missed before",
 ("C03",2): "C03 memo-wrong-arguments after memoize histories in a new interpreter without the seeded hash hook; missed before",
 ("C07",1): "C07 I3-stale-object (op-family sweep)",
 ("C07",2): "C07 I2-construct-not-identical after two-name substitutions in both keyword orders; missed before",
 ("C14",1): "C14 delta-subtract; missed before",
 ("C14",2): "C14 integrate-against-sample (dense definition over every superset of the sampled variables); missed before",
 ("C16",1): "C16 matching-rule-not-selected",
 ("C16",2): "C16 matching-rule-not-selected after annotation-derived patterns; missed before",
 ("C17",1): "C17 stack-depth (entry through the deprecated helper)",
 ("C17",2): "C17 stack-depth",
}
for (prop, n), how in caught.items():
    src = "/tmp/agent6-%s-out/%d" % (prop, n)
    tests = "/tmp/seedtests6-%s-%d.log" % (prop, n)
    line = open(tests).read().strip().splitlines()[-1] if os.path.exists(tests) and open(tests).read().strip() else None
    if not line or not line.startswith("7666 passed"):
        print("SKIP (suite not confirmed):", prop, n, line)
        continue
    sid = "%s-%d" % (prop, n + 10)
    dst = "/verif/seeded/%s" % sid
    os.makedirs(dst, exist_ok=True)
    shutil.copy(os.path.join(src, "patch.diff"), dst)
    shutil.copy(os.path.join(src, "demo.py"), dst)
    meta = json.load(open(os.path.join(src, "meta.json")))
    meta.update({"id": sid, "breaks_property": prop,
                 "written_by": "independent sub-agent (sixth wave) given only the property text, a scratch worktree and the list of sites already used",
                 "detected_by": how,
                 "confirmed_by_us": {"demo_on_clean_tree": "exit 0", "demo_with_change": "exit 1 (assertion failure)",
                                      "our_check": "VERIF_REPO=<scratch worktree with the change> ./check %s --tier quick -> VIOLATION" % prop,
                                      "pinned_suite_with_change": line}})
    json.dump(meta, open(os.path.join(dst, "meta.json"), "w"), indent=1)
    print("collected", sid)
