#!/bin/sh
# usage: replay_seed.sh <PROP> <seed-dir> : apply a seeded change in a scratch worktree, run the check with minimisation,
# then replay every replay file it wrote in a fresh process; each must reproduce the same invariant.
prop=$1; sd=$2; wt=/tmp/verif-replay-$prop
rd=/tmp/verif-replaytest-$prop; rm -rf $rd
git -C /repo worktree remove --force $wt >/dev/null 2>&1
git -C /repo worktree add -q --detach $wt HEAD || exit 2
git -C $wt apply $sd/patch.diff || { echo PATCH-FAILED; git -C /repo worktree remove --force $wt; exit 2; }
cd /verif
VERIF_EVIDENCE_DIR=/tmp/verif-mut-evidence VERIF_REPLAY_DIR=$rd VERIF_REPO=$wt ./check $prop --tier quick --max-report 2 2>&1 | grep -E "VIOLATION|^done" | cut -c1-200
for f in $rd/*.json; do
  echo "-- replay $f"; VERIF_REPO=$wt ./check $prop --replay $f 2>&1 | grep -E "REPRODUCED|NOT REPRODUCED|identical|HARNESS" | cut -c1-200
  echo "-- replay on the unchanged tree (must not reproduce)"; ./check $prop --replay $f 2>&1 | grep -E "REPRODUCED|NOT REPRODUCED|HARNESS" | cut -c1-200
done
git -C /repo worktree remove --force $wt
