#!/usr/bin/env python3
"""Third wave: copies confirmed sub-agent changes from /tmp/agent3-<PROP>-out/<n> into /verif/seeded/<PROP>-<n+4>/."""
import json, os, shutil
caught = {
 ("C02",1): "C02 marginal-differs-from-reference after the closed-form reference for real marginals and every-rank Gaussian factors in the corpus; missed before (every interpretation route shares Gaussian._marginalize_after_split)",
 ("C02",2): "C02 decline-changes-value after tensor-vs-Constant non-commutative arithmetic entered the corpus; missed before",
 ("C03",1): "C03 deferred-differs-from-immediate",
 ("C03",2): "C03 deferred-differs-from-immediate",
 ("C07",2): "C07 I5-pickle-roundtrip",
 ("C14",1): "C14 sample-mass after Gaussian mixture sampling cases (dense model of total mass); missed before",
 ("C14",2): "C14 sample-differs-across-hash-worlds",
 ("C16",1): "C16 not-instance-of-own-type after seeded inhomogeneous containers and the container self-type check; missed before",
 ("C16",2): "C16 subtype-not-transitive / subtype-disagrees-with-reference-model after synthesised unions entered the axiom pool and the reference subtype model; missed before",
 ("C17",1): "C17 layering",
 ("C17",2): "C17 exit-restores / stack-depth after KeyboardInterrupt and CancelledError joined the injected exception types; missed before",
 ("C20",1): "C20 write-through-operand",
 ("C20",2): "C20 array-mutated / write-through-operand",
}
for (prop, n), how in caught.items():
    src = "/tmp/agent3-%s-out/%d" % (prop, n)
    tests = "/tmp/seedtests3-%s-%d.log" % (prop, n)
    line = open(tests).read().strip().splitlines()[-1] if os.path.exists(tests) and open(tests).read().strip() else None
    if not line or not line.startswith("7666 passed"):
        print("SKIP (suite not confirmed):", prop, n, line)
        continue
    sid = "%s-%d" % (prop, n + 4)
    dst = "/verif/seeded/%s" % sid
    os.makedirs(dst, exist_ok=True)
    shutil.copy(os.path.join(src, "patch.diff"), dst)
    shutil.copy(os.path.join(src, "demo.py"), dst)
    meta = json.load(open(os.path.join(src, "meta.json")))
    meta.update({"id": sid, "breaks_property": prop,
                 "written_by": "independent sub-agent (third wave) given only the property text, a scratch worktree and the list of sites already used",
                 "detected_by": how or "NOT DETECTED, by design: the change duplicates parametrised term *classes* (Number[object, str]); C07 speaks of funsors, domains and parametrised ops, and funsor's cons-hashing of terms does not depend on the identity of those classes",
                 "confirmed_by_us": {"demo_on_clean_tree": "exit 0", "demo_with_change": "exit 1 (assertion failure)",
                                      "our_check": ("VERIF_REPO=<scratch worktree with the change> ./check %s --tier quick -> VIOLATION" % prop) if how else "no violation (outside the property as stated)",
                                      "pinned_suite_with_change": line}})
    json.dump(meta, open(os.path.join(dst, "meta.json"), "w"), indent=1)
    print("collected", sid)
