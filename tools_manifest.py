#!/venv/bin/python
"""Regenerates MANIFEST.json (single source of truth for what is claimed)."""
import json, os, subprocess
root = os.path.dirname(os.path.abspath(__file__))

def repo_commits():
    out = subprocess.run(["git", "-C", "/repo", "log", "--format=%H %s"], capture_output=True, text=True).stdout
    return [l.split()[0] for l in out.splitlines() if "verification hook" in l]

NA = {
 "C01": "pure function of (expression, data): no schedule, clock, fault or interleaving in the statement; deciding it needs an independent point-wise semantics, i.e. input-space testing, not simulation. Its one environment-dependent corner (values that vary with hash order) is reported by C02's cross-world oracle.",
 "C04": "substitution is a pure function of (f, subs); nothing a scheduler or fault injector decides can change its truth.",
 "C05": "quantifies over user-chosen names in programs; collisions need a program, not a history. The stateful fresh-name counter is watched (unclaimed) inside C07's engine.",
 "C06": "static type vs dynamic value agreement per (op, domains): pure. FUNSOR_TYPECHECK only serves as a world knob elsewhere.",
 "C08": "optimiser-vs-naive is a differential over programs (pure); soundness of the individual normalize/unfold/optimize steps is what C02 enumerates, path choice under different hash seeds is what C02's cross-world oracle sees.",
 "C09": "sum-product / plate elimination: deterministic graph algorithm whose branching is decided by its input; brute-force unrolling oracle = input enumeration.",
 "C10": "Markov products: index arithmetic over (duration, segments, lags); pure.",
 "C11": "adjoints: pure given the expression (the tape's push/pop behaviour is covered under C17).",
 "C12": "Gaussian algebra: pure linear algebra on inputs.",
 "C13": "Gaussian integrals / moment matching: pure linear algebra on inputs.",
 "C15": "op tables and ufunc facts: pure table lookups.",
 "C18": "compiler/tracer vs interpreter: second implementation, differential over programs; pure.",
 "C19": "conversions/alignment: layout arithmetic over (rank, names, event rank); pure.",
}
PENDING = {}

CHECKS = {
 "C02": dict(
   engine="confluence",
   category="fault_enumeration",
   text="Every rule firing of a run is treated as a fault point. For seeded programs (3-10 public-API constructor calls over four semiring families) and seven interpretation settings (eager, lazy/reflect/normalize then reinterpret, sequential, apply_optimizer), the undisturbed run is compared - on the whole finite integer input space and at sample points of real inputs - with (a) every run in which one firing k is declined so that the fall-through chain/reflected term takes its place (all k<=K, or a seeded sample), (b) runs in which one rule function is kept from firing on non-ground operands for the whole run, and (c) the undisturbed run in two other hash worlds. Independently every firing's result is checked against the inputs of the reflected term (no new dependence). For marginals over real inputs and for Integrate, where every route shares one closed-form helper, a small executable reference model decides instead: the quadratic (log-measure) and the polynomial (integrand) are recovered from point evaluations only and integrated in closed form (sim/refint.py); and every value of every program of the tensor fragment (including discrete Integrate, einsum, Scatter-add, Approximate) is compared with a dense numpy reference interpreter that shares no code with funsor's rules (sim/refmodel.py). A scenario corpus of 14 families reaches rare structures on purpose (slice of slice, shared binders, every rank of a Gaussian square-root factor, tensor-vs-Constant arithmetic). Each run is a fresh fork of a pristine world.",
   design_ref="DESIGN.md section 6 (C02)",
   note="Except for real marginals and integrals (reference model), the value of a replaced term is obtained from funsor itself by another route (other rules, or the same rules on ground instances): a rule wrong on every route passes. Float tolerance rtol 1e-6; carriers respect each semiring's side condition. Decided per sampled program, not for all programs.",
   technique="deterministic simulation: rule firings as enumerated decline faults, per-rule disable, cross-hash-world agreement"),
 "C03": dict(
   engine="confluence+memo",
   category="exploration",
   text="The scheduler decides, per constructor call of a seeded program, which interpretation is in force (eager, lazy, reflect, normalize, memoize over eager or lazy), i.e. which work is deferred; between construction and forcing it injects collections, dispatch-cache drops, fresh-name counter jumps and a failed (exception-injected) first forcing attempt; deferred terms are then forced by reinterpret (recursive or stack-free, by world), normalize+reinterpret, sequential, moment_matching or reinterpret under memoize. Every root is compared with the same program run immediately under eager in the same world (whole integer input space, sample points for real inputs, output domain, free inputs among the expression's). Memoize.interpret is wrapped and checked call by call against a model dict keyed by canonical (class, args): repeated identical calls must return the identical object and a hit must never serve different (class, args); dedicated histories reuse user cache dicts across blocks with user-defined term classes, drops, collections and re-allocated arrays; a further set of memoize histories (one cache dict across many blocks, operands dying with their block) runs in a new interpreter WITHOUT the seeded hash hook, where funsors hash by address, and compares every memoized value with the value computed directly.",
   design_ref="DESIGN.md section 6 (C03)",
   note="Reference = the real code on the trivial schedule; a rule that is wrong under every schedule passes (C01's domain). Sampled schedules, not all 6^n.",
   technique="deterministic simulation: seeded per-call interpretation schedules and between-event faults vs. immediate evaluation; Memoize checked against a reference map"),
 "C07": dict(
   engine="intern",
   category="exploration",
   text="Every history of length <=2 (quick) / <=3 (thorough) over a reduced 21-event alphabet is enumerated completely; beyond that, seeded histories (3-30 events, <=12 live handles, 3 re-allocatable array slots) of construct (under reflect, lazy, normalize, memoize-over-lazy, eager for leaf constructors; ~20 recipes: Variable, Number 1/1.0/True, Tensor over a slot, Binary/Unary/Reduce/Subs/Lambda/Stack/Cat/Delta/Slice, domains, parametrised ops and types), drop, gc(generation), re-allocate a slot (recycled id), pickle round trip, reinterpret under reflect, touch lazy properties, an exception injected at the n-th internal call of a construct, a collection injected at the n-th executed line of reflect / __getitem__ / OpMeta.__call__ / Memoize.interpret, and RESTART. Each history runs in a fresh fork against a reference map; after every event: I1 no two live interned terms with equal constructor arguments, I2 re-construction returns the identical live object, I3 no stale object (data is the requested array), I5 pickle/reinterpret identity (a substitution into two inputs is requested in both keyword orders); once per job an introspective sweep visits every parametrised op family of funsor.ops (36 families, each parameter with two legal values: distinct live ops carrying the values asked for, equal requests and pickle round trips identical) and a grid of 28 (dtype, shape) domains; at the end I4: after dropping everything and collecting, every intern table is back to its size at the start.",
   design_ref="DESIGN.md section 6 (C07)",
   note="Equality of arguments = Python equality for hashable atoms, identity for arrays and funsors. A constructor call that raises under an injected collection/exception is an observation. RESTART = the survivors are pickled, a *new interpreter* of the same world unpickles them under reflect (structure, identity of shared handles and of shared array-free sub-terms must survive) and continues the history; parametrised-type caches are exercised but their size is not part of I4.",
   technique="deterministic simulation: seeded construct/drop/collect/realloc/pickle histories with injected collections and exceptions against a reference intern map"),
 "C14": dict(
   engine="rng",
   category="exploration",
   text="The simulator owns the draw stream: numpy.random.rand/randn are replaced by a per-run deterministic stream, and in edge runs ~70% of the uniform draws are replaced by boundary values of the row's own CDF (0.0, the smallest subnormal, breakpoints and their float neighbours, 1-2^-53), with reach probes for 'draw on a leading zero-mass cell' and 'draw >= final CDF value'; for small tensors (<=6 cells quick, <=16 thorough) every boundary value of every row's CDF is enumerated at every draw position. Per draw, exact identities: inputs/output of the sample; exactly one finite point per (particle, batch element), lying in the support; total mass equal to the original's, both by direct summation and through funsor's own Delta reduction rules; Gaussians: zero noise gives the (conditional) mean and unit noise vectors give columns A with A A^T = the (conditional) covariance (dense numpy model of the sampler's contract), marginal mass preserved; Gaussian mixtures (log-weights + Gaussian over a shared discrete input): inputs and total mass against a dense numpy model; Integrate(sample, g, V) for every V between the sampled variables and all inputs against the definition computed densely; a deterministic corpus of Gaussian factor kinds (Cholesky, rotated, sign-flipped, over-complete with and without an offset of the white vector, rank-deficient) with the marginal mass checked against a closed form fitted through point evaluations; Deltas: value at/away from the point, unit-mass reduce, Integrate and subtraction identities, joint Deltas reduced or integrated over one of their names. Determinism: the same stream after a prefix of unrelated events (gc, fresh-name jump, dispatch-cache drop, other work) and in a second hash world must give the byte-identical sample.",
   design_ref="DESIGN.md section 6 (C14)",
   note="numpy backend only (funsor's own inverse-CDF sampler). The reduce/Integrate identities are claimed for unit-mass Deltas only, as the property states. Mass identities use rtol 1e-6; support and range are exact.",
   technique="deterministic simulation: owned random stream with injected boundary draws; per-draw exact identities; prefix/world determinism"),
 "C16": dict(
   engine="dispatch",
   category="exploration",
   text="Every PartialDispatcher.partial_call made while sessions execute generated programs (all interpretation settings) is monitored: from the dispatcher's registered signatures alone the set of matching patterns is recomputed and the rule that runs must belong to a pattern at least as specific as every other matching one. Sessions interleave the work with dispatch-cache drops, lru_cache drops, collections (which kill and re-create parametrised classes), late registration of unrelated rules and replays, and the map (dispatcher, canonical argument-type tuple) -> rule must stay a function within the run, across sessions that use programs in a different first-use order, and across hash worlds (merged by the runner). Each dispatcher's registry is rebuilt twice in seeded permuted registration order and must resolve every observed tuple to the same rule; argument tuples are synthesised for registered term patterns by specialising positions to pool types. A user-level registry with tuple / variadic / union / frozenset / catch-all patterns is dispatched in seeded orders, and every pair of its patterns (both registration orders) plus seeded subsets form small registries whose winner is checked against an executable reference reading of the patterns (member(): is the argument in the pattern; ref_sub(): is one pattern below another): the selected rule must contain the arguments and no matching pattern may be strictly more specific. deep_type of seeded containers (including inhomogeneous ones) must be a type the container is a member of. Registries, interpretation objects and StatefulInterpretation classes are checked for isolation (a rule answers where it was registered and nowhere else; parametrised keys resolve to their origin; stacked registrations all take effect), and patterns derived from a rule's annotations are part of the user registry. On the reached type pool plus synthesised unions and containers of unions: reflexivity on all types and transitivity on all triples (boolean matrix product) for issubclass-as-used-for-matching and for deep_issubclass; every visited term is a deep-instance of its own precise type and of every one-parameter generalisation; deep_type(frozenset) is independent of element order.",
   design_ref="DESIGN.md section 6 (C16)",
   note="Specificity of one signature over another is judged at the arity of the call: variadic tails are expanded and positions compared with issubclass (equal to multipledispatch.conflict.supercedes for fixed arities); matching = issubclass on wrapped types. Synthesised tuples are generated for interpretation registries (patterns over a term's arguments), not for op dispatchers on raw arrays, where numpy scalar types inherit from both float and numpy.generic.",
   technique="deterministic simulation: monitored dispatch under seeded cache-drop/GC/late-registration histories; cross-world and permuted-registration agreement; order axioms on reached types"),
 "C20": dict(
   engine="immut",
   category="exploration",
   text="Sessions (fresh fork each) run a generated program interleaved with entries of a 35-entry catalogue of public API calls (optimizer, adjoint, samplers, Gaussian algebra and keyword constructors from caller-held matrices, sum_product family, conversions, Scatter/Stack/Cat/Lambda/Independent, compile, views and slices, array kernels on zeros of both signs and infinities, factorisations of singular matrices, and an introspective sweep applying every op of funsor.ops to caller-held arrays) under randomly chosen interpretations and faults (exception at the n-th internal call, collection, one declined rule firing, rules disabled on non-ground operands). Two detector configurations run as separate batches: snapshot - before each step every user array and every funsor the session holds is fingerprinted (class, inputs, output, identities of _ast_values, bytes of every reachable array) and re-verified after the step, after every fault and at the end of the run, which catches late writes through views; tripwire - every user-supplied array is read-only, so the first write through an operand or a view of it raises at the offending funsor line, which is reported with its file:line.",
   design_ref="DESIGN.md section 6 (C20)",
   note="lazy_property caches and profiling counters are not part of the snapshot (the property names inputs, output, data). Writes into arrays funsor allocated itself are legal and not observed.",
   technique="deterministic simulation: seeded operation/fault histories with before/after snapshots of every held term and array, plus read-only tripwire arrays"),
 "C17": dict(
   engine="ctxstack",
   category="fault_enumeration",
   text="An explicit stack model runs beside the real interpretation stack while well-nested trees of context blocks (with / decorator / the deprecated interpretation() helper; total and partial, memoize, Memoize built directly over a partial interpretation, adjoint tape, MonteCarlo, the library's argmax/mean approximation interpretations, user-defined) execute; an exception (seven kinds, including KeyboardInterrupt and asyncio.CancelledError, which are not Exception subclasses) is injected between every two body items and at every (capped/sampled) funsor-internal call of every work step and context entry, caught at varying enclosing levels. After every step and unwind: stack identity/depth, restoration of the pre-entry interpretation, layering of partial interpretations, a behavioural fingerprint of freshly built probe terms, and equal consultation of two user interpretations that differ in name only by the terms library code builds inside their block. Fault positions are enumerated per tree; trees are exhaustive to 2 (quick) / 3 (thorough) blocks and seeded-random to depth 5/6.",
   design_ref="DESIGN.md section 6 (C17)",
   note="Trusted: sys.monitoring delivers PY_START for every funsor Python frame; injected exceptions are subclasses of the real types. Not covered: faults inside Interpretation.__exit__/pop_interpretation, asynchronous exceptions between bytecodes, unnested (generator-interleaved) context use.",
   technique="deterministic simulation: seeded block-tree workloads + enumerated exception injection against an explicit stack model"),
}

def main():
    checks = []
    for pid, c in sorted(CHECKS.items()):
        checks.append({
            "property_id": pid,
            "quick_cmd": "./check %s --tier quick" % pid,
            "thorough_cmd": "./check %s --tier thorough" % pid,
            "evidence_file": "evidence/%s.json" % pid,
            "replay_cmd_template": "./check %s --replay {path}" % pid,
            "engine": c["engine"],
            "level_claimed": {"category": c["category"], "text": c["text"], "design_ref": c["design_ref"]},
            "level_note": c["note"],
            "technique": c["technique"],
        })
    na = [{"property_id": k, "reason": v} for k, v in sorted(NA.items())]
    na += [{"property_id": k, "reason": v} for k, v in sorted(PENDING.items()) if k not in CHECKS]
    na.sort(key=lambda d: d["property_id"])
    m = {
        "version": 1,
        "setup_cmd": "./setup.sh",
        "hooks": {
            "guard": "FUNSOR_VERIF",
            "enable": "environment FUNSOR_VERIF=1 (plus FUNSOR_VERIF_HASHSEED=<int>) set when funsor is imported; checks import funsor from /repo's working tree (PYTHONPATH=/repo), nothing is built or cached",
            "baseline_off_cmd": "cd /repo && env -u FUNSOR_VERIF /venv/bin/python -m pytest -ra -q -p no:cacheprovider --timeout=900 --continue-on-collection-errors",
            "source_commits": repo_commits(),
            "add_only": True,
        },
        "engines": [
            {"name": "confluence", "path": "checks/c02.py", "serves_properties": ["C02"], "kind_free_text": "program executor under a rule-dispatch seam; decline/disable faults; fork per run; cross-world comparison"},
            {"name": "confluence+memo", "path": "checks/c03.py", "serves_properties": ["C03"], "kind_free_text": "per-call interpretation scheduler, between-event faults, Memoize model"},
            {"name": "intern", "path": "checks/c07.py", "serves_properties": ["C07"], "kind_free_text": "history simulator over intern tables with scheduled GC, id recycling, pickle; reference map"},
            {"name": "rng", "path": "checks/c14.py", "serves_properties": ["C14"], "kind_free_text": "random-stream seam with boundary-draw injection; dense reference model for Gaussian samples"},
            {"name": "dispatch", "path": "checks/c16.py", "serves_properties": ["C16"], "kind_free_text": "dispatch monitor + history/world/registration-order independence + order axioms"},
            {"name": "immut", "path": "checks/c20.py", "serves_properties": ["C20"], "kind_free_text": "snapshot and read-only-tripwire detectors over program + API-catalogue sessions with injected faults"},
            {"name": "ctxstack", "path": "checks/c17.py", "serves_properties": ["C17"], "kind_free_text": "stack model + exception injection at internal calls (sys.monitoring)"},
        ],
        "checks": checks,
        "not_applicable": na,
        "notes": "Deterministic simulation with fault injection; see DESIGN.md. Exit codes: 0 held, 1 violation (VIOLATION line), 2 harness error (never a verdict).",
    }
    json.dump(m, open(os.path.join(root, "MANIFEST.json"), "w"), indent=1)
    print("wrote MANIFEST.json:", len(checks), "checks")

if __name__ == "__main__":
    for k in ( "C07", "C14", "C16", "C20"):
        PENDING[k] = "not yet claimed at this commit: the simulation engine for it (DESIGN.md section 6) is still being built; not a judgement of applicability."
    main()
